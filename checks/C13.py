"""C13 Observed-address translation only swaps the host component."""
import json

META = {
    "level": "exploration",
    "technique": "TLA+ relation Post(orig, obs, out) evaluated by TLC on every record produced by the real _address_translation over an exhaustively enumerated abstract alphabet",
    "text": "Exhaustive over all pairs of multiaddr component-kind sequences up to length 2 (quick) / 3 (thorough) over 9 kinds (ip4, ip6, dns, dns4, dns6, tcp, udp, quic-v1, p2p), with the observed address's first component either different from the original's or the same host value; the TLA+ relation in specs/RelAddrTranslate.tla is the oracle and TLC evaluates it for every (input, output) record of the real function. A pure function with a finite abstract case analysis, so enumeration of the abstract space is the right level.",
    "note": "Component values are abstracted to two representatives per kind (original vs observed); kinds outside the 9-letter alphabet are not explored.",
    "design_ref": "6/C13",
}


def run(c):
    drv = c.build("drv-swarmfn")
    recs = c.rundir / "translate.ndjson"
    c.drive(drv, ["translate", c.pick(2, 3), recs])
    n, bad = c.tlc_relation("RelAddrTranslate", recs, timeout=1500)
    host = {"ip4", "ip6", "dns", "dns4", "dns6"}
    nt = 0
    for line in open(recs):
        r = json.loads(line)
        if r["orig"] and r["obs"] and r["orig"][0][0] in host and r["obs"][0][0] in host:
            nt += 1
            if len(r["orig"]) > 1:
                c.sample(r)
    c.evaluations = n
    c.distinct_nontrivial = nt
    return c.finish(
        "exploration", exhaustive=True,
        rule="every pair (original, observed) of component-kind sequences of length 0..N over 9 kinds, values 1 (original) / 2 (observed); all records are distinct by construction; non-trivial = both addresses start with an IP/DNS component (translation must happen)",
        assumptions=["abstraction: one representative value per component kind and side"],
    )
