"""C30 Gossipsub accepts only messages valid for the validation mode."""
import json
from pathlib import Path

META = {
    "level": "model_checking",
    "technique": "TLA+ relation Valid(mode, message) transcribed from the statement; TLC checks the transcribed decision procedure of GossipsubCodec::decode on the full abstract grid (with canaries) and evaluates the relation on every record produced by the real codec on concrete messages carrying real signatures",
    "text": "Abstract grid: 4 validation modes x source {absent, empty, garbage, A, B} x sequence number {absent, empty, 4 bytes, 8 bytes} x signer {absent, garbage, A, B} (the real messages additionally with a present but empty signature field) x key field {absent, garbage, A, B} x post-signature mutation {none, source swapped, data flipped/dropped, seqno flipped/dropped, topic changed, signature bit flipped}, for key types with inlined (ed25519, secp256k1) and hashed (ecdsa, rsa) peer ids. TLC proves on all 40960 grid points that the transcribed codec logic surfaces a message as valid only if it satisfies its mode and rejects every mutated signed message in Strict mode; two canaries (Permissive skips signature verification; Anonymous tolerates a sequence number) are rejected. Every applicable grid point is then built as a real protobuf message (real key pairs, signatures per the pubsub spec), framed in an RPC and decoded by the real GossipsubCodec; TLC evaluates the statement on each verdict.",
    "note": "One direction only (surfaced valid => satisfies the mode) plus Strict mutation rejection; that well-formed messages ARE accepted is only measured (anti-vacuity). Empty source / empty seqno fields count as 'absent-like' in Permissive mode.",
    "design_ref": "6/C30",
}


def run(c):
    c.tlc_mc("GsValidate", "MCGsValidate.cfg")
    c.tlc_mc("GsValidate", "MCGsValidate_perm_canary.cfg", expect="AcceptedIsValid")
    c.tlc_mc("GsValidate", "MCGsValidate_anon_canary.cfg", expect="AcceptedIsValid")
    c.tlc_mc("GsValidate", "MCGsValidate_vacuity.cfg", expect="NothingAccepted")
    drv = c.build("drv-gscodec")
    recs = c.rundir / "validate.ndjson"
    if c.replay:
        c.drive(drv, ["validate", "replay", Path(c.replay).resolve(), recs])
    else:
        c.drive(drv, ["validate", "grid", c.tier, c.seed, recs])
    n, bad = c.tlc_relation("RelGsValidate", recs, timeout=1500)
    valid = {}
    nontrivial = 0
    for line in open(recs):
        r = json.loads(line)
        if r.get("out") == "valid":
            valid[(r["mode"], r["kt"])] = valid.get((r["mode"], r["kt"]), 0) + 1
        if r["sigby"] in ("A", "B"):
            nontrivial += 1
            if r["mut"] != "none" and r["mode"] == "Strict" and len(c.samples) < 3:
                c.sample({k: r[k] for k in ("mode", "kt", "from", "seqno", "sigby", "key", "mut", "out", "err") if k in r})
    if not c.replay:
        kts = {k for (_, k) in valid}
        for kt in kts:
            for mode in ("Strict", "Permissive", "Anonymous", "None"):
                if not valid.get((mode, kt)):
                    raise __import__("vlib").ToolError("vacuous: no message accepted for %s/%s" % (mode, kt))
    c.evaluations = n
    c.distinct_nontrivial = nontrivial
    return c.finish(
        "model_checking", exhaustive=True,
        rule="every applicable point of the abstract grid (a mutation needs a real signature; source swap needs a source; seqno mutations need a seqno) for the key types of the tier (quick: one inlined and one hashed type chosen by the seed; thorough: ed25519, secp256k1, ecdsa, rsa); all records distinct by construction; non-trivial = messages carrying a real signature",
        assumptions=["abstraction: two identities per key type, one representative per field category; data 4 bytes; garbage key/source/signature are fixed byte strings"],
    )
