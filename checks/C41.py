"""C41 The memory record store behaves like a bounded map."""
import json

META = {
    "level": "model_checking",
    "technique": "TLA+ transcription of MemoryStore (records map, provider lists, separately kept `provided` set) model-checked against map semantics, the bounds and provided-in-sync (two canaries); the real MemoryStore under exhaustive short and seeded random op sequences, fully projected after every op, validated by TLC against the bounded-map reference model",
    "text": "TLC exhaustively checks the transcribed put/remove/add_provider/remove_provider over 2-3 keys, 3 providers (one local), 2 tags and limits 1-2 for: records = latest put (ghost map), record count/value size bounds, provider list bound and uniqueness, provided() = the local node's current records; canaries (stale `provided` on in-place update; '>' in the size test) are rejected. The real public MemoryStore is driven with all op sequences of length 2-3 over a 19-letter alphabet with every limit = 1 and seeded random sequences (2-4 keys/providers, limits 1-3, value sizes around max_value_bytes); after every op records(), providers(k) for every k, provided() and the op result are compared by TLC with the reference model.",
    "note": "Record values are `size` copies of a tag byte; provider records are distinguished by their address; expiry fields are not exercised. The undocumented-in-the-statement max_provided_keys limit (refusal of a new provider key) is modelled as the code documents it.",
    "design_ref": "6/C41",
}


def run(c):
    c.tlc_mc("KadStore", "MCKadStore.cfg")
    c.tlc_mc("KadStore", "MCKadStore_canary.cfg", expect="ProvidedInSync")
    c.tlc_mc("KadStore", "MCKadStore_canary2.cfg", expect="Bounded")
    if not c.quick:
        c.tlc_mc("KadStore", "MCKadStore3.cfg", timeout=1500)
    drv = c.build("drv-kad")
    if c.replay:
        t = c.rundir / "replay_trace.ndjson"
        c.drive(drv, ["store", "replay", c.replay, t])
        traces = [t]
    else:
        t1 = c.rundir / "exh.ndjson"
        c.drive(drv, ["store", "exhaustive", c.pick(2, 3), t1])
        t2 = c.rundir / "rand.ndjson"
        c.drive(drv, ["store", "random", c.seed, c.pick(200, 3000), t2])
        traces = [t1, t2]
    distinct = set()
    for t in traces:
        ok, total = c.tlc_trace("TraceKadStore", t, timeout=2400)
        c.evaluations += total
        for line in open(t):
            ev = json.loads(line)
            if ev["e"] == "reset":
                ops = ev["sched"]["ops"]
                if any(o["a"] in ("put", "addp") for o in ops):
                    distinct.add(json.dumps(ev["sched"], sort_keys=True))
                    if len(c.samples) < 3 and len(ops) <= 6:
                        c.sample(ev["sched"])
    c.distinct_nontrivial = len(distinct)
    return c.finish(
        "model_checking",
        rule="schedule = (limits max_records/max_value_bytes/max_providers_per_key/max_provided_keys, op sequence over put(k,size,tag)/get(k)/remove(k)/addp(k,provider,tag)/remp(k,provider)); exhaustive for length<=N over 19 letters with all limits 1, plus seeded random schedules of length 5..40; distinct = distinct schedules containing a put or addp",
        assumptions=["provider 0 is the local node; records/provider records identified by small tags"],
    )
