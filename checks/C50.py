"""C50 AutoNAT servers dial back only the requester's observed IP."""
import json

META = {
    "level": "model_checking",
    "technique": "TLA+ relation DialOK evaluated by TLC on every address the real filter_valid_addrs lets through (exhaustively enumerated address shapes); TLA+ model of the server's admission (one dial-back per peer, throttling) model-checked; traces of the real autonat v1 Behaviour (real request-response handlers, real wire codec) validated by TLC against the property-level server spec",
    "text": "Address clause: every demanded address of 1..3 (4 thorough) components over a 15-letter alphabet (observed/other IPv4, observed/other IPv6, dns, dns4, dns6, dnsaddr, tcp, udp, quic, /p2p requester/other, /p2p-circuit), for IPv4 and IPv6 observations, plus random address lists, is passed through the real filter_valid_addrs; TLC evaluates DialOK (an IP component exists, all IP components equal the observed IP, no DNS host, no relay hop, every /p2p is the requester and the address ends with it) on every output. Server clause: AutonatServer.tla is model-checked (one dial-back per peer, per-peer and global throttle, canary without the ongoing test); the real v1 Behaviour is driven with crafted DialRequests on real inbound streams, outbound connections that are not dial-backs come and go while dial-backs are in flight, every ToSwarm::Dial it emits is recorded and validated by TLC: addresses DialOK, no second dial-back for a peer while one is running, at most throttle_clients_peer_max / throttle_clients_global_max dial-backs within the throttle period.",
    "note": "Throttle period is longer than a run (the window is the whole run); the Swarm is played by the driver.",
    "design_ref": "6/C50",
}


def run(c):
    c.tlc_mc("AutonatServer", "MCAutonatServer.cfg")
    c.tlc_mc("AutonatServer", "MCAutonatServer_canary.cfg", expect=["OneDialBackPerPeer"])
    c.tlc_mc("AutonatServer", "MCAutonatServer_canary2.cfg", expect=["OneDialBackPerPeer"])
    drv = c.build("drv-autonat")
    if c.replay:
        first = json.loads(open(c.replay).readline())
        if first.get("e") == "reset":
            t = c.rundir / "replay_server.ndjson"
            c.drive(drv, ["server", "replay", c.replay, t])
            c.tlc_trace("TraceAutonat", t)
        else:
            recs = c.rundir / "replay_filter.ndjson"
            c.drive(drv, ["filter", "replay", c.replay, recs])
            n, bad = c.tlc_relation("RelAutonat", recs, timeout=600)
            c.evaluations = n
        return c.finish("model_checking", rule="replay")
    # server clause: one dial-back per peer, throttling, dialed addresses
    t = c.rundir / "server.ndjson"
    c.drive(drv, ["server", "random", c.seed, c.pick(400, 8000), t])
    ok, total = c.tlc_trace("TraceAutonat", t, timeout=1500)
    ndial = sum(1 for line in open(t) if '"e":"dial"' in line)
    c.extra_cov["server_runs"] = total
    c.extra_cov["server_dial_backs_observed"] = ndial
    recs = c.rundir / "filter_exh.ndjson"
    c.drive(drv, ["filter", "exhaustive", c.pick(3, 4), recs])
    recs2 = c.rundir / "filter_rand.ndjson"
    c.drive(drv, ["filter", "random", c.seed, c.pick(3000, 30000), recs2])
    allrecs = c.rundir / "filter_all.ndjson"
    allrecs.write_text(recs.read_text() + recs2.read_text())
    n1, bad = c.tlc_relation("RelAutonat", allrecs, timeout=1500)
    n2 = 0
    nt = 0
    for f in (recs, recs2):
        for line in open(f):
            r = json.loads(line)
            if r["out"]:
                nt += 1
                if len(r["dem"][0]) > 2 and len(c.samples) < 3:
                    c.sample({"obs": r["obsl"], "demanded": r["letters"], "out": r["out"]})
    c.evaluations = n1 + n2
    c.distinct_nontrivial = nt
    return c.finish(
        "model_checking",
        rule="record = (observed address, demanded address list, output of filter_valid_addrs); exhaustive: every single demanded address of length 1..N over 15 component letters x 3 observed addresses; random: lists of 1..4 addresses of up to 8 components; non-trivial = the filter let at least one address through",
        assumptions=["component values abstracted to observed/other (IP) and requester/other (/p2p)"],
    )
