"""Shared pieces of the gossipsub ROUTER checks (C28 C29 C35 C36, router level of C32): one Spec (Gossipsub.tla),
one driver (drv-gossipsub router), one property-level trace spec (TraceGossipsub.tla) with one .cfg per property."""
import json


def model(c, canary_cfg, canary_expect, two_conns=False):
    """(M): the single-router model satisfies all router properties; the property's canary must be rejected.
    quick: 2 peers x 2 topics, one connection per peer (two for C29, where the first-connection rule matters);
    thorough: + two connections per peer + 3 peers (one explicit)."""
    if c.quick:
        c.tlc_mc("Gossipsub", "MCGossipsub_1c.cfg", timeout=600)
        if two_conns:
            # two connections per peer: 1 peer x 2 topics and 2 peers x 1 topic (the full product is thorough-tier)
            c.tlc_mc("Gossipsub", "MCGossipsub_2c1p.cfg", timeout=300)
            c.tlc_mc("Gossipsub", "MCGossipsub_2c1t.cfg", timeout=300)
    else:
        c.tlc_mc("Gossipsub", "MCGossipsub.cfg", timeout=1500)
    c.tlc_mc("Gossipsub", "MCGossipsub_filter.cfg", timeout=300)
    c.tlc_mc("Gossipsub", canary_cfg, expect=canary_expect, timeout=300)
    if not c.quick:
        c.tlc_mc("Gossipsub", "MCGossipsub3.cfg", timeout=2400)


def drive(c, classes, runs_q, runs_t, length=40):
    """(G)+(R): directed + seeded random schedules of the given classes against the real Behaviour."""
    drv = c.build("drv-gossipsub")
    if c.replay:
        t = c.rundir / "replay_trace.ndjson"
        c.drive(drv, ["router", "replay", c.replay, t])
        return [t]
    out = []
    for k, cls in enumerate(classes):
        t = c.rundir / ("router_%s.ndjson" % cls)
        c.drive(drv, ["router", "random", cls, c.seed * 1000 + k, c.pick(runs_q, runs_t), length, t])
        out.append(t)
    return out


def validate(c, prop_cfg, traces, nontrivial, attribute=None, max_rejects=4):
    """(V): every run must be accepted by TraceGossipsub under the property's invariants.
    nontrivial(events_of_run) -> bool (measured per run)."""
    distinct = set()
    for t in traces:
        ok, total = c.tlc_trace("TraceGossipsub", t, prop_cfg, timeout=1200, attribute=attribute, max_rejects=max_rejects)
        c.evaluations += total
        run = None
        evs = []

        def close():
            if run is not None and nontrivial(evs):
                distinct.add(json.dumps(run["sched"], sort_keys=True))
                if len(c.samples) < 3:
                    c.sample({"cfg": run["sched"]["cfg"], "ops": run["sched"]["ops"][:12]})
        for line in open(t):
            ev = json.loads(line)
            if ev["e"] == "reset":
                close()
                run, evs = ev, []
            else:
                evs.append(ev)
        close()
    c.distinct_nontrivial = len(distinct)


ASSUMPTIONS = [
    "logical time: the gossipsub verif clock (backoff.rs only) is advanced in units of 60 s by the schedule; real time elapsing inside a run (milliseconds) is far below one unit",
    "peer scores are observed through Behaviour::peer_score after every step; score decay is disabled (decay interval 10^6 s)",
    "the explicit-peer set is fixed before peers connect; gossipsub v1.0 peers (PRUNE without backoff) are not generated",
    "a message is only injected on a connection whose handler has reported its protocol (the real handler cannot do otherwise)",
]
