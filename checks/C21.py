"""C21 Signatures, signed envelopes and peer records are sound."""
import json

META = {
    "level": "exploration",
    "technique": "TLA+ provenance model (every envelope / peer-record field original or foreign) enumerated by TLC; the driver builds each vector with real keys of every type through hand-encoded protobuf and asks the real SignedEnvelope / PeerRecord API; all single-bit (thorough: single-byte) changes of messages, signatures and encoded envelopes; TLC evaluates the relation on every record",
    "text": "TLC enumerates the 32 provenance vectors of a signed envelope (carried key, signed domain, signed type, carried type, signed payload: original or foreign) and the 32 vectors of a peer record (API legacy/interop x signed domain x type x carried key x record peer id) for each of the 4 key types; every foreign field is built in four shapes (unrelated value, extension of the original, prefix of it, empty), and peer records additionally with domain / payload-type constants extended or cut by one byte; the driver signs with real keys over an independently implemented RFC-0002 buffer, encodes the protobuf by hand and calls from_protobuf_encoding + payload_and_signing_key / PeerRecord::from_signed_envelope(_interop): TLC checks accepted <=> every field original (and the returned payload/key/record content equal the signed ones). For every key type and three message lengths: the signature verifies, not under another key or key type, and no single-bit change of message or signature, truncation or extension verifies. For an envelope and a peer-record envelope of every key type every single-byte mutation (6 masks, thorough all 255) and every truncation is rejected or decodes to an identical record.",
    "note": "Exploration level. ECDSA/secp256k1 signature malleability (r, n-s) is not a single-byte change and is outside the statement's quantifier.",
    "design_ref": "6/C21",
}


def run(c):
    drv = c.build("drv-core")
    grid, n, _ = c.tlc_gen("GenEnvelope", "GenEnvelope.cfg", exhaustive=True)
    if c.replay:
        grid = c.replay
    t = c.rundir / "envelope.ndjson"
    c.drive(drv, ["envelope", grid, c.pick("quick", "thorough"), t], timeout=3000)
    n, bad = c.tlc_relation("RelEnvelope", t)
    inputs = 0
    nt = 0
    for line in open(t):
        r = json.loads(line)
        if r["kind"] == "sig":
            inputs += r.get("flips", 0) + 7
            nt += 1
        elif r["kind"] == "mut":
            inputs += r.get("mutants", 0)
            nt += 1
        else:
            inputs += 1
            if r["kind"] in ("env", "prec") and not r.get("accepted", False):
                nt += 1
            if len(c.samples) < 4 and r["kind"] == "prec":
                c.sample(r)
    c.evaluations = inputs
    c.distinct_nontrivial = nt
    return c.finish(
        "exploration",
        rule="records = provenance vectors (32 envelope + 32 peer-record per key type, all enumerated by TLC), signature records (key type x message length, each covering all single-bit changes), mutation records (key type x envelope kind, each covering every single-byte mutation and truncation); evaluations count every individual verification; distinct_nontrivial = vectors that must be rejected + signature and mutation records",
        assumptions=["'other' = a second key of the same type, a second domain / payload type / payload"],
    )
