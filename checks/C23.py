"""C23 DNS dialing is bounded and never leaks unresolved or foreign addresses."""
import json

META = {
    "level": "model_checking",
    "technique": "TLA+ transcription of dns::Transport::do_dial model-checked over all small record graphs (bounds, suffix filter, termination, 3 canaries); TLC-enumerated record graphs + hand-written stress graphs + seeded random graphs served by a scripted resolver to the REAL transport (verif::with_resolver) around a recording inner transport; every run validated by TLC against a property-level trace spec with the real limits 32/16",
    "text": "TLC explores do_dial's worklist algorithm (scaled limits 3/2/2) over every record graph of 2 /dnsaddr names, 1 host name and 1-2 addresses (self and mutual cycles, foreign-suffix TXT entries, empty and error answers) with an inner transport that refuses, fails or succeeds, and proves lookups/attempts bounded, only resolved and suffix-matching addresses dialed, no panic, termination; three canaries (limit off by one, suffix filter removed, expect on empty answer) are rejected. The same graphs (TLC-enumerated), stress graphs that exceed the real limits (40-deep chains, cycles, 20x3 fan-out, binary /dnsaddr trees, 40-record answers, several DNS components, empty/CNAME-only/wrong-family/garbage answers for all four query types, /dnsaddr cycles through 0-3 /dns, 0-2 /dns4 and 0-1 /dns6 names without address records so that the lookup counter passes through every residue, TXT entries that are a bare /dnsaddr or host indirection without any suffix) and seeded random graphs are served by a scripted hickory Resolver to the real libp2p_dns::Transport::dial; TLC validates each recorded run: <=32 lookups, <=16 inner dials accepted, every address handed to the inner transport is free of DNS components and derivable from the dialed address using only answers actually served (for /dnsaddr only TXT addresses that end with the remaining suffix), the dial completes, no panic.",
    "note": "The scripted resolver fails every lookup after the 120th of a dial so that a dial with unbounded lookups still ends (and is then rejected for its lookup count). An inner dial the inner transport refuses synchronously (MultiaddrNotSupported) is not counted as an attempt (as documented in the code). Resolver futures are immediately ready.",
    "design_ref": "6/C23",
}


def run(c):
    c.tlc_mc("DnsDial", "MCDnsDial.cfg", liveness=True)
    c.tlc_mc("DnsDial", "MCDnsDial_canary.cfg", expect="Bounded")
    c.tlc_mc("DnsDial", "MCDnsDial_canary2.cfg", expect="SuffixOK")
    c.tlc_mc("DnsDial", "MCDnsDial_canary3.cfg", expect="NoPanic")
    if not c.quick:
        c.tlc_mc("DnsDial", "MCDnsDial2.cfg", timeout=1500)
    drv = c.build("drv-dns")
    traces = []
    if c.replay:
        t = c.rundir / "replay_trace.ndjson"
        c.drive(drv, ["replay", c.replay, t])
        traces.append(t)
    else:
        for g in c.pick(["GenDnsDial_q.cfg"], ["GenDnsDial_t.cfg", "GenDnsDial_t2.cfg"]):
            sched, n, _ = c.tlc_gen("MCGenDnsDial", g, exhaustive=True, timeout=1500, out=c.rundir / ("sched_%s.ndjson" % g[:-4]))
            t = c.rundir / ("graphs_%s.ndjson" % g[:-4])
            c.drive(drv, ["replay", sched, t])
            traces.append(t)
        t = c.rundir / "stress.ndjson"
        c.drive(drv, ["stress", t])
        traces.append(t)
        t = c.rundir / "rand.ndjson"
        c.drive(drv, ["random", c.seed, c.pick(1000, 8000), t])
        traces.append(t)
    distinct = set()
    hit_l = hit_a = 0
    for t in traces:
        ok, total = c.tlc_trace("TraceDnsDial", t, timeout=3000)
        c.evaluations += total
        cur = None
        lk = acc = 0
        for line in open(t):
            ev = json.loads(line)
            if ev["e"] == "reset":
                cur = json.dumps(ev["sched"], sort_keys=True)
                lk = acc = 0
                if len(c.samples) < 2 and len(ev["sched"]["zone"]) >= 2:
                    c.sample(ev["sched"])
            elif ev["e"] == "lookup":
                lk += 1
                if lk == 2:
                    distinct.add(cur)  # non-trivial: at least two lookups (an indirection)
                if lk == 32:
                    hit_l += 1
            elif ev["e"] == "innerDial" and ev["res"] == "accepted":
                acc += 1
                if acc == 16:
                    hit_a += 1
    c.distinct_nontrivial = len(distinct)
    c.extra_cov["runs_reaching_32_lookups"] = hit_l
    c.extra_cov["runs_reaching_16_accepted_dials"] = hit_a
    if not c.replay and (hit_l == 0 or hit_a == 0):
        raise __import__("vlib").ToolError("stress schedules no longer reach the limits (vacuous bounds check)")
    return c.finish(
        "model_checking",
        rule="schedule = (dialed address, record graph = answers per (name, query type), inner transport outcomes); all graphs over 2 /dnsaddr names x 1 host x 1 address with foreign-suffix variants (thorough: also 2 addresses without foreign variants, and 4 inner-transport policies) are enumerated by TLC, plus 89 hand-written stress/corner graphs and seeded random graphs over 1..5 names; distinct = distinct schedules with at least two lookups",
        assumptions=["resolver and inner-transport futures complete immediately (no timing)",
                     "refused inner dials (MultiaddrNotSupported) are not attempts"],
    )
