"""C27 Gossipsub delivers each published message once to every subscriber."""
import json

META = {
    "level": "model_checking",
    "technique": "TLA+ network model (GossipNet.tla: every connected topology and mesh on 3-4 nodes, duplicate cache, flood/mesh publish, forwarding) model-checked for at-most-once delivery, no delivery at the publisher, no copy back or to the source, and delivery to all under fairness (+ 2 canaries); networks of up to 12 real gossipsub Behaviours (signed messages through the real codec) with the driver playing the links validated by TLC against the property-level trace spec TraceGossipNet",
    "text": "TLC exhaustively explores all interleavings of publish and receive for every connected topology on 3-4 nodes with every connected mesh inside it (1-2 messages) and checks the four safety invariants and the liveness property; canaries (forward back to the sender, skipped duplicate-cache insert) are rejected. Conformance: 2-12 real Behaviours on seeded random connected topologies (trees to cliques) with mesh sizes from 1/1/2 to 'everyone', flood or mesh publish, 1-2 topics, 1-5 messages; the schedule picks which link delivers its next RPC and when nodes heartbeat, so message orders and heartbeat timings are arbitrary; every RPC travels as bytes through the receiver's real codec with strict signature validation. 40% of the runs use gossipsub v1.2 peers with messages above the IDONTWANT size threshold and held-back links (RPCs stay in the behaviour's real per-peer send queue while IDONTWANTs arrive); 30% run with validate_messages(), the applications accepting at scheduled later points; directed schedules (IDONTWANT against a queued burst; duplicates arriving while validation is pending) run first. TLC checks on every step: an application sees a message at most once and never its own; no copy is queued for the message's source or for a neighbour the node has received that message from (except in answer to that neighbour's IWANT); and at the end, for runs whose meshes were at a fixed point from the first publish on, that every other node has delivered every published message.",
    "note": "The nodes are real Behaviours wired by the driver (no Swarm/transport): link-level interleaving is then fully controlled and every copy observable. Delivery to all is asserted only for runs without mesh churn after the first publish (a peer grafted after its neighbour got a message receives neither forward nor gossip: gossipsub's design); gossip_lazy and history sizes are set so that gossip reaches every non-mesh neighbour. Duplicate-cache expiry (time) is outside this check (C33).",
    "design_ref": "6/C27",
}


def run(c):
    c.tlc_mc("MCGossipNet", "MCGossipNet.cfg", timeout=600)
    c.tlc_mc("MCGossipNet", "MCGossipNet_mesh.cfg", timeout=600)
    c.tlc_mc("MCGossipNet", "MCGossipNet_2msg.cfg", timeout=600)
    c.tlc_mc("MCGossipNet", "MCGossipNet_canary_echo.cfg", expect="NeverBackOrToSource", timeout=300)
    c.tlc_mc("MCGossipNet", "MCGossipNet_canary_dup.cfg", expect="AtMostOnce", timeout=300)
    if not c.quick:
        c.tlc_mc("MCGossipNet", "MCGossipNet4_2msg.cfg", timeout=2400)
    drv = c.build("drv-gossipsub")
    t = c.rundir / "net.ndjson"
    if c.replay:
        c.drive(drv, ["net", "replay", c.replay, t])
    else:
        c.drive(drv, ["net", "random", c.seed, c.pick(100, 1500), 12, t])
    ok, total = c.tlc_trace("TraceGossipNet", t, timeout=2400)
    c.evaluations = total
    # measured: runs in which delivery-to-all was owed and checked (>= 3 nodes, >= 1 successful publish)
    owed = set()
    run = None
    churn = False
    pubs = 0
    for line in open(t):
        ev = json.loads(line)
        e = ev["e"]
        if e == "reset":
            run, churn, pubs = ev, False, 0
        elif e == "pub" and ev["res"]:
            pubs += 1
        elif pubs and (e in ("conn", "sub") or (e == "dlv" and ev["gr"] + ev["pr"] > 0)):
            churn = True
        elif e == "end":
            if ev["due"] and ev["quiet"] and not churn and pubs and run["n"] >= 3:
                owed.add(json.dumps(run["sched"], sort_keys=True))
                if len(c.samples) < 3:
                    c.sample({"cfg": run["sched"]["cfg"], "edges": [[o["x"], o["y"]] for o in run["sched"]["ops"] if o["a"] == "conn"], "publishes": pubs})
    c.distinct_nontrivial = len(owed)
    return c.finish(
        "model_checking",
        rule="schedule = (2..12 nodes, random spanning tree + extra edges with density 0/0.15/0.4/1, mesh params in {12/12/16, 1/2/3, 2/3/4, 1/1/2, 4/6/12}, flood_publish on/off, 1-2 topics; setup ops in random order interleaved with deliveries; 80%: run to a mesh fixed point first; 1-5 publishes each followed by up to 4n random link deliveries / heartbeats; final settle of n+2 heartbeat rounds); distinct = distinct schedules with >= 3 nodes in which delivery to all was owed (formed network, no mesh churn after the first publish) and checked",
        assumptions=["the driver is the network: RPCs popped from each node's per-peer queue travel one at a time in schedule order (FIFO per link)",
                     "gossip_lazy 16, history_length/gossip 60: gossip about a held message reaches every non-mesh neighbour at every heartbeat",
                     "no wall-clock effects: heartbeats only when scheduled, duplicate cache lifetime 1 h"],
    )
