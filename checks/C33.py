"""C33 Gossipsub caches keep exactly their documented windows."""
import json
from pathlib import Path

META = {
    "level": "model_checking",
    "technique": "TLA+ transcriptions of DuplicateCache (lazy purge, logical clock) and MessageCache (history slots, stale entries) model-checked against ghost reference windows with canaries; traces of the real caches (clock shim for the duplicate cache) validated by TLC against the property-level reference model",
    "text": "TLC exhaustively checks the transcribed duplicate cache (3 keys, ttl 2, 8 time steps: seen within ttl of the first insertion, new afterwards, never refreshed, contains lags at most until the next insert) and the transcribed message cache (2 ids, 2 topics, history 3 / gossip 2: kept exactly history_length shifts unless removed, gossip set exact, counters cleared) and rejects three canaries (re-insert refreshes; shift drops the newest slot; gossip window one too long). The real DuplicateCache under a controllable clock and the real MessageCache execute every op sequence up to length 4-5 over small alphabets, directed remove/re-put scenarios and seeded random sequences of 5..40 ops over up to 4 keys/ids, 2 topics, 3 peers; TLC validates every return value (insert/contains, put/validate/remove, gossip id sets after every step, IWANT result and per-peer count) against the reference model rebuilt from the events.",
    "note": "Expired duplicate-cache keys may still be reported by contains until the next insert call (documented lazy purge); IWANT for a present but unvalidated message is left open. Logical time unit 1000 s on top of the real clock.",
    "design_ref": "6/C33",
}


def run(c):
    c.tlc_mc("GsDupCache", "MCGsDupCache.cfg")
    c.tlc_mc("GsDupCache", "MCGsDupCache_canary.cfg", expect=["NotRefreshed", "SeenWithinTtl", "NewAfterTtl"])
    c.tlc_mc("GsMCache", "MCGsMCache.cfg")
    c.tlc_mc("GsMCache", "MCGsMCache_shift_canary.cfg", expect=["KeptExactly", "GossipExact", "IwantOnly"])
    c.tlc_mc("GsMCache", "MCGsMCache_gossip_canary.cfg", expect="GossipExact")
    if not c.quick:
        # the message cache as coded before the repair (remove() keeps the stale history entry)
        c.tlc_mc("GsMCache", "MCGsMCache_impl.cfg", expect=["KeptExactly", "GossipExact"])
        c.tlc_mc("GsDupCache", "MCGsDupCache_big.cfg", timeout=1500)
        c.tlc_mc("GsMCache", "MCGsMCache_big.cfg", timeout=1500)
    drv = c.build("drv-gscodec")
    if c.replay:
        t = c.rundir / "replay_trace.ndjson"
        c.drive(drv, ["caches", "replay", Path(c.replay).resolve(), t])
        traces = [t]
    else:
        t1 = c.rundir / "exh.ndjson"
        c.drive(drv, ["caches", "exhaustive", c.tier, t1])
        t2 = c.rundir / "rand.ndjson"
        c.drive(drv, ["caches", "random", c.seed, c.pick(500, 20000), t2])
        traces = [t1, t2]
    distinct = set()
    for t in traces:
        ok, total = c.tlc_trace("TraceGsCaches", t, timeout=1700)
        for line in open(t):
            if '"e":"reset"' not in line:
                continue
            ev = json.loads(line)
            c.evaluations += 1
            s = ev["sched"]
            distinct.add(json.dumps(s, sort_keys=True))
            if len(c.samples) < 4 and len(s["ops"]) > 5:
                c.sample(s)
    c.distinct_nontrivial = len(distinct)
    return c.finish(
        "model_checking",
        rule="schedule = (cache kind, ttl | (gossip, history), op sequence); exhaustive: every sequence up to length N over {ins k0, ins k1, has k0, has k1, tick 1} (N=4 for ttl 1, 5 for ttl 2 in quick) containing an insert, and over {put, validate, remove, shift, iwant} for one message with gossip ids observed after every step (N=3..4 for (gossip,history) in (0,0),(1,1),(1,2),(2,3)) containing a put; directed remove/re-put scenarios; random: 5..40 ops over 1..4 keys/ids, ttl 1..4, history 0..4, gossip <= history; distinct = distinct schedules (all contain at least one insert/put in the exhaustive part)",
        assumptions=["duplicate cache time = real clock + thread-local offset advanced in units of 1000 s; a run takes far less than one unit",
                     "history_gossip <= history_length (what ConfigBuilder::build guarantees, C34)"],
    )
