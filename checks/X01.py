"""X01 libp2p-stream: Control::accept / Control::open_stream / IncomingStreams (extension component)."""

META = {
    "level": "model_checking",
    "technique": "TLA+ models of the inbound registry (lazy gc of deregistered protocols, one-slot channel) and of the outbound "
                 "path (connections / senders / pending_channels / dial requests / handler) model-checked with canaries for the "
                 "code's former deviations; the REAL Behaviour + Handlers + Control + IncomingStreams are driven by hand (the "
                 "driver plays Swarm and application), every step validated by TLC against a property-level trace spec",
    "text": "accept(p) is AlreadyRegistered iff a live IncomingStreams for p exists, dropping it deregisters; the protocols offered "
            "for an inbound stream are exactly the registered ones; a negotiated inbound stream is handed with the remote's peer id "
            "to the IncomingStreams registered for its protocol at that moment, at most once, never to another one, and is lost "
            "only if nobody is registered or that consumer is behind; open_stream makes the behaviour dial an unconnected peer "
            "(never a connected or already dialed one), leads to at most one substream request for exactly its protocol on a "
            "connection to its peer, and resolves with the outcome of its attempt (the negotiated stream, UnsupportedProtocol(p), "
            "or Io with a cause: failed dial - propagated as NotConnected to every open_stream that waited for that dial -, closed "
            "connection, failed negotiation); after everything the environment was asked "
            "has been answered no open_stream is left waiting.",
    "note": "Extension component (not in properties.jsonl). The driver emulates Swarm::dial's PeerCondition check and delivers "
            "ConnectionEstablished / ConnectionClosed atomically with handler creation / drop. Shared::sender picks a random "
            "connection (rand::rng()), so a replayed schedule may take another path when a peer has two connections.",
    "design_ref": "ext/X01",
}


def run(c):
    import json
    # (M)
    c.tlc_mc("XStream", "MCXStream.cfg")
    c.tlc_mc("XStream", "MCXStream_canary.cfg", expect="Resolves")
    c.tlc_mc("XStream", "MCXStream_canary2.cfg", expect="Resolves")
    c.tlc_mc("XStreamIn", "MCXStreamIn.cfg")
    c.tlc_mc("XStreamIn", "MCXStreamIn_canary.cfg", expect="OfferedIsRegistered")
    if not c.quick:
        c.tlc_mc("XStream", "MCXStream4.cfg", timeout=1500)
    # (R)
    drv = c.build("drv-xstream")
    if c.replay:
        t = c.rundir / "replay_trace.ndjson"
        c.drive(drv, ["replay", c.replay, t])
    else:
        t = c.rundir / "xs.ndjson"
        t2 = c.rundir / "xs_rand.ndjson"
        c.drive(drv, ["exhaustive", c.pick(3, 5), t])
        c.drive(drv, ["random", c.seed, c.pick(200, 3000), t2])
        with open(t, "a") as f:
            f.write(open(t2).read())
    # (V)
    ok, total = c.tlc_trace("TraceXStream", t, max_rejects=6)
    c.evaluations += total
    distinct = set()
    for line in open(t):
        ev = json.loads(line)
        if ev["e"] == "reset":
            ops = ev["sched"]["ops"]
            if any(o["a"] in ("open", "inb", "inb1") for o in ops):
                distinct.add(json.dumps(ops, sort_keys=True))
            if len(c.samples) < 3:
                c.sample(ev["sched"])
    c.distinct_nontrivial = len(distinct)
    return c.finish(
        "model_checking",
        rule="schedule = ops over accept/dropinc/recv(p), open(peer,p)/cancel, pollbeh, dialok/dialfail(peer,kind), inconn/close, "
             "dialdeny/indeny(peer) (denied after the handler was built), pollh(c), outok/outfail(c,kind), inb / inb1+inb2 (c,p) with 2 remote peers and protocols /a /b (+ never registered "
             "/c); all sequences up to length N over a 14-letter alphabet without impossible steps, plus seeded random schedules "
             "of length 6..45 (3 of 4 generated online among the steps possible in the current state); every run ends with a drain and the `end` check; distinct = distinct schedules with an "
             "open_stream or an inbound stream",
        assumptions=["the driver plays the Swarm: it applies the Dial's PeerCondition like Swarm::dial, answers substream "
                     "requests in FIFO order per connection, and polls all unresolved open_stream futures after every step",
                     "streams are identified by a serial byte written by the (scripted) remote end"],
    )
