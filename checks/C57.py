"""C57 Length-prefixed protobuf codecs round-trip and bound allocation."""
import json
from pathlib import Path

META = {
    "level": "model_checking",
    "technique": "TLA+ model of a streaming length-prefixed decoder (varint header, arbitrary chunking, all frame sequences) model-checked with canaries; traces of the real prost_codec::Codec decoding real encoder output under every split point validated by TLC against the property-level framing spec",
    "text": "TLC exhaustively checks the transcribed prost-codec decode algorithm over all sequences of up to 3 frames with payload lengths 0..5 (limit 3, 1- and 2-unit headers) under every chunking for: delivery of every in-limit frame in order, errors only at the first oversize frame and as soon as its header is complete, bounded buffering; two canaries (limit checked after buffering; incomplete header treated as error) are rejected. The real Codec<proto::Message> then decodes streams produced by the real encoder (frame sizes limit-1/limit/limit+1, zero-length, 1/2-byte prefix boundary) cut at every single split point, byte-wise and at every pair of split points, plus seeded random streams with junk tails, corrupted copies, adversarial varints and limits/declared lengths within a few units of usize::MAX; every decode result is validated by TLC against TraceFraming (the next encoded message exactly, no withholding, oversize rejected before its payload is fed, never a panic).",
    "note": "Message type is prost-codec's own test message (bytes field). Junk after the announced frames is only checked for absence of panics and of consumption on Ok(None).",
    "design_ref": "6/C57",
}

CODEC = "prost"
MC = [("MCFraming_prost.cfg", None), ("MCFraming_late_canary.cfg", ["RejectEarly", "BoundedBuffer"]),
      ("MCFraming_insuff_canary.cfg", ["NoSpuriousError"])]
MC_THOROUGH = "MCFraming_prost_big.cfg"


def run(c, codec=None, mc=None, mc_thorough=None):
    codec = codec or CODEC
    for cfg, expect in (mc or MC):
        c.tlc_mc("Framing", cfg, expect=expect)
    if not c.quick:
        c.tlc_mc("Framing", mc_thorough or MC_THOROUGH, timeout=1500)
    drv = c.build("drv-gscodec")
    if c.replay:
        t = c.rundir / "replay_trace.ndjson"
        c.drive(drv, ["framing", "replay", Path(c.replay).resolve(), t])
        traces = [t]
    else:
        t1 = c.rundir / "exh.ndjson"
        c.drive(drv, ["framing", "exhaustive", c.tier, t1, "codec=" + codec])
        t2 = c.rundir / "rand.ndjson"
        c.drive(drv, ["framing", "random", c.seed, c.pick(600, 12000), t2, "codec=" + codec])
        traces = [t1, t2]
    distinct = set()
    for t in traces:
        ok, total = c.tlc_trace("TraceFraming", t, timeout=1700)
        for line in open(t):
            if not line.startswith('{"codec"') and '"e":"reset"' not in line:
                continue
            ev = json.loads(line)
            if ev.get("e") != "reset":
                continue
            c.evaluations += 1
            s = ev["sched"]
            if s["frames"] or s.get("junk"):
                distinct.add(json.dumps(s, sort_keys=True))
                if len(c.samples) < 3 and len(s["frames"]) > 1:
                    c.sample({k: s[k] for k in ("codec", "limit", "frames", "chunks")})
    c.distinct_nontrivial = len(distinct)
    return c.finish(
        "model_checking",
        rule="schedule = (codec, limit, frame specs, junk tail, chunk sizes); exhaustive part: frame-length sequences of 1..3 frames over {limit-1, limit, limit+1 (last only)} + tiny/zero frames at a tiny limit cut at every single split point, byte-wise, and (subset in quick, all in thorough) every pair of split points; sequences around the 1/2-byte prefix boundary and limits 200/300 cut around every frame/prefix boundary (thorough: every position); adversarial junk; random part: seeded limits, lengths biased to the limit, 0..6 cuts biased to boundaries, junk tails and corrupted copies; distinct = distinct schedules with at least one frame or junk byte",
        assumptions=["the decoder is driven exactly like asynchronous_codec::FramedRead drives it (append chunk, decode until Ok(None)/Err); FramedRead/decode_eof themselves are not under test"],
    )
