"""X04 DCUtR: the hole-punch attempt state machine (behaviour + relayed handlers)."""
import json

META = {
    "level": "model_checking",
    "technique": "TLA+ model of the upgrade state machine (initiating and answering relayed connections, retries, dial results incl. a later behaviour denying the connection) model-checked with two canaries; traces of the REAL dcutr Behaviour with its REAL relayed handlers and wire codec (driver plays the Swarm and the remote peers with crafted HolePunch frames on in-memory streams) validated by TLC against a property-level obligation spec",
    "text": "DCUtR (extension component): P1 the behaviour dials only after a completed CONNECT/SYNC exchange on a relayed connection, to that peer, on the advertised non-relayed parseable addresses, PeerCondition::Always; P2 role override iff we initiated (listener of the relayed connection); P3 at most MAX_NUMBER_OF_UPGRADE_ATTEMPTS dials per initiating relayed connection, a failed dial is retried with a new Connect command, the last failure yields Err(AttemptsExceeded); P4 Event Ok(id) exactly for established connections the behaviour dialed, one Err per failed handshake, at most one final event per initiating connection; P5 the CONNECT we send lists the external address candidates: non-relayed, ending with /p2p/local, at most 20, most recently reported first; P6 direct_connections = established direct connections; H handshake order (CONNECT, CONNECT, SYNC), every handshake reported exactly once, a new inbound stream replaces the unfinished one.",
    "note": "Deviations named in Dcutr.tla: the upgrade starts although a direct connection to the peer exists; a failed dial on the answering side yields no event; a failed outbound handshake is final (no retry). The 10 s handshake timeouts are not exercised; the rtt/2 wait of the initiator runs on the real timer (micro-seconds).",
    "design_ref": "ext/X04",
}


def stats(path):
    n = 0
    nontrivial = set()
    dials = att = repl = deny = 0
    for line in open(path):
        r = json.loads(line)
        e = r["e"]
        if e == "reset":
            n += 1
            cur = json.dumps(r["sched"], sort_keys=True)
            nin = {}
        elif e == "dial":
            dials += 1
            nontrivial.add(cur)
        elif e == "event" and not r["ok"] and r.get("err") == "attempts":
            att += 1
        elif e == "dialres" and r["r"] == "deny":
            deny += 1
    return n, nontrivial, dials, att, deny


def run(c):
    if c.quick:
        c.tlc_mc("Dcutr", "MCDcutr_q.cfg")
    else:
        c.tlc_mc("Dcutr", "MCDcutr.cfg")
        c.tlc_mc("Dcutr", "MCDcutr2.cfg")
    c.tlc_mc("Dcutr", "MCDcutr_canary.cfg", expect=["AttemptsBounded"])
    c.tlc_mc("Dcutr", "MCDcutr_canary2.cfg", expect=["OkOnlyEstablished", "Bookkeeping"])
    drv = c.build("drv-xdcutr")
    if c.replay:
        t = c.rundir / "replay.ndjson"
        c.drive(drv, ["beh", "replay", c.replay, t])
        c.tlc_trace("TraceDcutr", t)
        return c.finish("model_checking", rule="replay")
    t1 = c.rundir / "exhaustive.ndjson"
    c.drive(drv, ["beh", "exhaustive", c.pick(2, 3), t1])
    t2 = c.rundir / "random.ndjson"
    c.drive(drv, ["beh", "random", c.seed, c.pick(300, 10000), t2])
    nontrivial = set()
    for t in (t1, t2):
        n, nt, dials, att, deny = stats(t)
        nontrivial |= nt
        c.extra_cov[t.stem] = {"runs": n, "dials": dials, "attempts_exceeded": att, "denied_after_established": deny}
    # one TLC start for both files
    allt = c.rundir / "all.ndjson"
    allt.write_text(t1.read_text() + t2.read_text())
    c.tlc_trace("TraceDcutr", allt, timeout=3000)
    for line in open(t2):
        r = json.loads(line)
        if r["e"] == "reset" and len(c.samples) < 2 and len(r["sched"]["ops"]) < 14:
            c.sample(r["sched"])
    c.evaluations = c.traces_ok
    c.distinct_nontrivial = len(nontrivial)
    return c.finish(
        "model_checking",
        rule="schedule = candidates reported, connections (relayed in/out, direct) opened and closed, substream requests answered, remote DCUtR messages (CONNECT/SYNC/junk/oversized/EOF with direct, relayed and unparseable addresses), second inbound streams, dial results (ok / fail / denied after established); exhaustive: all op sequences of length N over 12 ops after 3 prefixes (fresh, two failed attempts, inbound handshake half way); random: directed upgrade episodes and undirected op sequences; non-trivial = the behaviour dialed at least once",
        assumptions=["the driver plays the Swarm: commands to closed connections are dropped, a denied connection is reported as DialFailure without ConnectionEstablished", "handshake timeouts (10 s) not exercised"],
    )
