"""C54 The peer store keeps permanent addresses and bounded records."""
import json

META = {
    "level": "model_checking",
    "technique": "TLA+ LRU-of-LRU transcription of MemoryStore model-checked (step properties + 3 canaries); TLC-generated edge-cover schedules + exhaustive short + seeded random schedules executed on the real MemoryStore (public API + constructed FromSwarm events); every (events, snapshot, return value) validated by TLC against a property-level trace spec",
    "text": "TLC exhaustively explores the transcribed store (hashlink LRU semantics, permanence flag, event queue; explicit add/remove, NewExternalAddrOfPeer, ConnectionEstablished with failed addresses, DialFailure Transport/WrongPeerId) and proves per step: dial-failure paths never remove a permanent entry, sizes stay within the capacities, events equal the step's additions and explicit/automatic removals; three canaries (force ignored, entry() overflow, silent automatic removal) are rejected. TLC emits one schedule per transition of small instances; these, all op sequences of length 2-3 over a 26-letter alphabet for five configurations and seeded random schedules (a quarter of them also using the custom-data API, whose address-less records occupy capacity: judged for the bounds incl. the record count, permanence and the API contract) are run on the real libp2p_peer_store::MemoryStore. After every operation the driver drains the store's events and snapshots its content through the public iterators; TLC checks every step against the property-level spec: capacities respected; no Removed event for an explicitly added address in a swarm-event operation; Added/Removed events exactly for pairs that entered / were removed as targets of the operation; a pair leaving the store without event must be a forced capacity eviction (count-exact, victim free); add_address/remove_address contracts.",
    "note": "Which entry a capacity eviction chooses is left to the implementation; automatic removal/addition on swarm events is allowed but not required by the trace spec. Custom data API not exercised.",
    "design_ref": "6/C54",
}


def run(c):
    c.tlc_mc("PeerStore", "MCPeerStore_q.cfg")
    c.tlc_mc("PeerStore", "MCPeerStore_q2.cfg")
    c.tlc_mc("PeerStore", "MCPeerStore_canary.cfg", expect="PermanentKept")
    c.tlc_mc("PeerStore", "MCPeerStore_canary2.cfg", expect="Bounded")
    c.tlc_mc("PeerStore", "MCPeerStore_canary3.cfg", expect="EventsExact")
    if not c.quick:
        c.tlc_mc("PeerStore", "MCPeerStore.cfg", timeout=1500)
        c.tlc_mc("PeerStore", "MCPeerStore_off.cfg", timeout=1500)
    drv = c.build("drv-peerstore")
    traces = []
    if c.replay:
        t = c.rundir / "replay_trace.ndjson"
        c.drive(drv, ["replay", c.replay, t])
        traces.append(t)
    else:
        for g in c.pick(["GenPeerStore_q.cfg", "GenPeerStore_q2.cfg"], ["GenPeerStore_q.cfg", "GenPeerStore_q2.cfg", "GenPeerStore_t.cfg"]):
            sched, n, _ = c.tlc_gen("GenPeerStore", g, exhaustive=True, timeout=1500, out=c.rundir / ("sched_%s.ndjson" % g[:-4]))
            t = c.rundir / ("trace_%s.ndjson" % g[:-4])
            c.drive(drv, ["replay", sched, t])
            traces.append(t)
        t = c.rundir / "exh.ndjson"
        c.drive(drv, ["exhaustive", c.pick(2, 3), t])
        traces.append(t)
        t = c.rundir / "exh1.ndjson"
        c.drive(drv, ["exhaustive1", c.pick(3, 4), t])
        traces.append(t)
        t = c.rundir / "rand.ndjson"
        c.drive(drv, ["random", c.seed, c.pick(300, 4000), t])
        traces.append(t)
    distinct = set()
    for t in traces:
        ok, total = c.tlc_trace("TracePeerStore", t, timeout=3000)
        c.evaluations += total
        for line in open(t):
            if not line.startswith('{"e":"reset"'):
                continue
            ev = json.loads(line)
            ops = ev["sched"]["ops"]
            kinds = {o["op"] for o in ops}
            # non-trivial: an explicit add together with a dial-failure style event, or enough adds to hit a capacity
            if ("add" in kinds and kinds & {"conn", "dft", "dfw"}) or sum(1 for o in ops if o["op"] in ("add", "ext", "conn")) > min(ev["pc"], ev["rc"]):
                distinct.add(json.dumps(ev["sched"], sort_keys=True))
            if len(c.samples) < 3 and len(ops) >= 3:
                c.sample(ev["sched"])
    c.distinct_nontrivial = len(distinct)
    return c.finish(
        "model_checking",
        rule="schedule = (peer_capacity, record_capacity, remove_addr_on_dial_error, op sequence over add/remove/ext/conn/conn_in/dft/dfw/dfo); TLC prints one schedule per transition of the model's state graph (2-3 peers x 2 addresses, capacities 1-2), the driver adds all sequences of length 2 (thorough 3) over 26 letters x 5 configurations, all sequences of length 3 (thorough 4) over the 13 one-peer letters x 2 configurations and seeded random schedules (length 5..40, capacities 1..4); distinct = distinct schedules with an explicit add plus a dial-failure event, or more additions than a capacity",
        assumptions=["store observed through record_iter / addresses_of_peer / poll after every operation"],
    )
