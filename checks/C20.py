"""C20 Identities and keys have faithful, total encodings."""
import json

META = {
    "level": "exploration",
    "technique": "TLA+ decision tables (PeerId multihash acceptance, key inlining rule) enumerated by TLC into a grid of hand-built multihashes; real keys of every type derived / encoded / decoded through the public libp2p-identity API; TLC evaluates the relation on every record; mutated and random byte strings fed to every decoder (no panic)",
    "text": "TLC enumerates code x declared digest length x shape (8 codes x 12 lengths x exact/short/long = 280 multihashes); the driver builds the bytes by hand and calls PeerId::from_bytes: TLC checks accept <=> identity code with <= 42 bytes or SHA2-256 with 32 bytes (truncated SHA2-256 digests left open), malformed lengths rejected, accepted ids round-trip through bytes and base58. For fresh keys of every type (Ed25519, secp256k1, ECDSA, RSA fixtures) TLC checks the inlining rule (code = identity iff the protobuf encoding has <= 42 bytes; digest = encoding / its SHA2-256 computed independently), determinism, byte/base58 round-trips, public-key protobuf round-trip and private-key protobuf round-trip (RSA private encoding is documented as unsupported). 4 x N mutated/truncated/random inputs are decoded by PublicKey::try_decode_protobuf, Keypair::from_protobuf_encoding, PeerId::from_bytes and PeerId::from_str: no panic.",
    "note": "Exploration level: the oracle for the round-trip part is identity; the model contributes the acceptance / inlining decision tables.",
    "design_ref": "6/C20",
}


def run(c):
    drv = c.build("drv-core")
    grid, n, _ = c.tlc_gen("GenIdentity", "GenIdentity.cfg", exhaustive=True)
    if c.replay:
        grid = c.replay
    t = c.rundir / "identity.ndjson"
    c.drive(drv, ["identity", grid, c.seed, c.pick(3, 40), c.pick(20000, 1000000), t])
    n, bad = c.tlc_relation("RelIdentity", t)
    inputs = 0
    nt = 0
    for line in open(t):
        r = json.loads(line)
        if r["kind"] == "fuzz":
            inputs += r["inputs"]
        else:
            inputs += 1
            if r["kind"] != "mh" or r["accepted"] or r["shape"] == "exact":
                nt += 1
            if r["kind"] == "inline" and len(c.samples) < 4:
                c.sample(r)
    c.evaluations = inputs
    c.distinct_nontrivial = nt
    return c.finish(
        "exploration",
        rule="grid records = every (multihash code, declared length, shape) of the TLA+ tables; key records = fresh keys of the 4 types (quick 3, thorough 40 rounds each); fuzz = mutated / truncated / random encodings per decoder; distinct_nontrivial = grid cells with exact shape or accepted, plus all key records",
        assumptions=["RSA keys come from the crate's PKCS#8 test fixtures (no RSA key generation in the API)"],
    )
