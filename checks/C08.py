"""C08 Concurrent dialing respects the concurrency factor and reports each failure."""
import json

META = {
    "level": "model_checking",
    "technique": "TLA+ model of ConcurrentDial model-checked over all completion orders (+no-refill canary); traces of real Swarm dials over a puppet transport validated by TLC against the property-level trace spec",
    "text": "TLC explores every completion order and outcome of the transcribed ConcurrentDial (N<=5, k<=3) for factor-respected, errors-exact, failure-reports-all, success-is-real, window-kept-full, and rejects a no-refill canary. Conformance: a real Swarm dials N<=4 (5 thorough) distinct addresses with factor k (global config or per-dial override, given before or after the address list); the puppet transport's dial futures are resolved in seeded random orders and outcomes, including before they were first polled and with several completions piled up between polls; after every command the in-flight set is sampled; TLC checks in-flight <= k, one transport dial per address, exactly one result, success only via an address that succeeded, and on failure every address exactly once in the reported errors.",
    "note": "Smart-dial mode: a few real-time runs (staggered 30 ms delays) check that every address is handed to the transport once and attempted at most once, and the same result rules; its delays themselves are not asserted. In flight = dial future polled at least once and neither completed nor dropped.",
    "design_ref": "6/C08",
}


def run(c):
    c.tlc_mc("ConcurrentDial", "MCConcurrentDial.cfg")
    c.tlc_mc("ConcurrentDial", "MCConcurrentDial43.cfg")
    c.tlc_mc("ConcurrentDial", "MCConcurrentDial51.cfg")
    c.tlc_mc("ConcurrentDial", "MCConcurrentDial_canary.cfg", expect="WindowKeptFull")
    drv = c.build("drv-swarm")
    t = c.rundir / "cdial.ndjson"
    if c.replay:
        c.drive(drv, ["cdial", "replay", c.replay, t])
    else:
        c.drive(drv, ["cdial", "random", c.seed + 5, c.pick(1500, 20000), t, "nmax=%d" % c.pick(4, 5), "smart=%d" % c.pick(15, 200)], timeout=3000)
    ok, total = c.tlc_trace("TraceConcurrentDial", t, timeout=c.pick(600, 3000))
    distinct = set()
    for line in open(t):
        ev = json.loads(line)
        if ev["e"] == "reset" and ev["n"] > ev["k"]:
            distinct.add(json.dumps(ev["sched"], sort_keys=True))
            if len(c.samples) < 3:
                c.sample(ev["sched"])
    c.evaluations = total
    c.distinct_nontrivial = len(distinct)
    return c.finish("model_checking",
                    rule="schedule = (N, k, override?, completion order over all N attempts with ok/error outcome and poll-or-not after each); seeded random; distinct schedules; non-trivial = N > k (the window matters)",
                    assumptions=["PuppetTransport futures; deterministic polling"])
