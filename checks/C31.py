"""C31 Gossipsub RPC size limits are applied per frame."""
import importlib.util
from pathlib import Path

_spec = importlib.util.spec_from_file_location("check_C57_shared", Path(__file__).with_name("C57.py"))
_c57 = importlib.util.module_from_spec(_spec)
_spec.loader.exec_module(_c57)

META = {
    "level": "model_checking",
    "technique": "TLA+ model of the gossipsub decoder (validate_rpc_limits pre-check + prost-codec) over all frame sequences and chunkings, with the whole-buffer comparison as canary; traces of the real GossipsubCodec (built directly and through Config -> ProtocolConfig -> upgrade_inbound) validated by TLC against the property-level framing spec",
    "text": "TLC exhaustively checks the transcribed GossipsubCodec::decode (per-frame pre-check, then prost-codec) over all sequences of up to 3 frames with payload lengths 0..5 (limit 3) under every chunking: every in-limit frame is delivered however frames are split or coalesced, an error happens only at the first oversize frame, buffering is bounded; the canary (limit compared with the whole buffer, DESIGN 7-7) is rejected. The real GossipsubCodec decodes real encoder output for RPC sizes max-1/max/max+1 in sequences of 1..3 RPCs cut at every split point / coalesced, byte-wise and at pairs of split points, RPCs at and just over the publish-count and control-size limits, plus seeded random streams with junk; TLC validates every decode result against TraceFraming (in-limit RPC delivered once completely fed, with the encoded content; oversize RPC never delivered and rejected at the latest when completely fed; no waiting with more than max+10 bytes buffered).",
    "note": "RPCs exceeding only the publish-count / control-size limits may be rejected or delivered (the statement does not say); RPCs within all limits must be delivered.",
    "design_ref": "6/C31",
}


def run(c):
    return _c57.run(c, codec="gs",
                    mc=[("MCFraming_gs.cfg", None), ("MCFraming_gs_canary.cfg", ["AcceptGood", "NoSpuriousError"])],
                    mc_thorough="MCFraming_gs_big.cfg")
