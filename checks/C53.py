"""C53 Allow and block lists are enforced."""
import json

META = {
    "level": "model_checking",
    "technique": "TLA+ model of allow-block-list (list changes queue CloseConnection::All; enforce on established callbacks) model-checked (+canary); traces of a real Swarm running the derived {allow_block_list::Behaviour, probe} validated by TLC",
    "text": "TLC explores block/unblock, establishment in both directions, close processing (3 connections, 2 peers) for never-establish-while-blocked and clean-at-quiescence, and rejects a no-enforce-inbound canary. Conformance: a real Swarm with the real allow_block_list::Behaviour (blocked flavour and allowed flavour in alternating runs) composed by the derive macro; seeded 35-step schedules interleave block/unblock (disallow/allow) calls with dials, inbound connections, authentications as any peer, closes and partial polls, including list changes while the peer's connection is pending; TLC checks that no ConnectionEstablished for a banned peer is ever reported after the list change returned and that at every quiescent point no established connection to a banned peer remains.",
    "note": "'took effect' = the block_peer/disallow_peer call returned.",
    "design_ref": "6/C53",
}


def run(c):
    c.tlc_mc("AllowBlock", "MCAllowBlock.cfg")
    c.tlc_mc("AllowBlock", "MCAllowBlock_canary.cfg", expect="NeverEstablishBlocked")
    drv = c.build("drv-swarm")
    t = c.rundir / "lists.ndjson"
    if c.replay:
        c.drive(drv, ["guard", "replay", c.replay, t])
    else:
        c.drive(drv, ["guard", "lists", c.seed + 41, c.pick(240, 3000), t, "steps=35"])
    ok, total = c.tlc_trace("TraceGuards", t, timeout=c.pick(600, 3000))
    distinct = set()
    cur = None
    for line in open(t):
        ev = json.loads(line)
        if ev["e"] == "reset":
            cur = json.dumps(ev["sched"], sort_keys=True)
            if len(c.samples) < 2:
                c.sample({"cfg": ev["sched"]["cfg"], "cmds": ev["sched"]["cmds"][:12]})
        elif ev["e"] in ("cbDialFailure", "cbListenFailure") and ev.get("kind") == "Denied":
            distinct.add(cur)
    c.evaluations = total
    c.distinct_nontrivial = len(distinct)
    return c.finish("model_checking",
                    rule="seeded random 35-command schedules with block/unblock interleaved; distinct schedules; non-trivial = at least one connection was denied by the list behaviour",
                    assumptions=["single Swarm, deterministic polling"])
