"""X07 Floodsub: at-most-once delivery, subscription announcements and flooding in a network of real Behaviours."""
import json

META = {
    "level": "model_checking",
    "technique": "TLA+ network model of floodsub (subscriptions, partial views, per-link RPC queues, received-cache) model-checked for at-most-once delivery, delivery only to subscribers, no echo to the propagation source, at-most-once forwarding and no self-delivery (canaries: no dedup, echo back, own message not remembered); 2-5 REAL floodsub Behaviours wired by the driver (every RPC through the real wire codec), every step validated by TLC against the property-level trace specification",
    "text": "specs/FloodNet.tla: 3 nodes, 1-2 topics, 1-2 messages, publish / publish_any, subscribe / unsubscribe while messages are in flight, RPC reordering per link; invariants DeliverOnce, OnlySubscribed, NoEcho, ForwardOnce, NoSelfDelivery. harness/drv-xfloodsub: the driver is the network - it drains every node's poll(), queues each NotifyHandler RPC on its directed link and delivers RPCs in schedule order (optionally reordered: every floodsub RPC is its own substream) through FloodsubRpc::upgrade_outbound -> pipe -> FloodsubProtocol::upgrade_inbound into on_connection_handler_event; three schedule sources (directed, seeded random, bounded-exhaustive on a triangle); ops: connect (up to 2 connections per pair) / disconnect / add_node_to_partial_view / remove / subscribe / unsubscribe / publish_many(_any) / deliver / forged look-alike messages. specs/TraceFloodNet.tla rebuilds connections, partial views, subscriptions, announced views, links and seen-sets from the events and requires of every step: subscribe/unsubscribe results and exactly-once announcements, exactly the owed message copies (never back to the sender, never twice), Event::Message at most once and only when subscribed, local copy iff subscribe_local_messages, codec fidelity, redial after losing a partial-view peer, agreement of announced views at quiescence.",
    "note": "Message identity is the whole message (source, seqno, data, topics) as the code documents; the (source, seqno) identity of the pubsub spec is NOT enforced by rust-libp2p floodsub (named deviation: a forged look-alike is treated as a different message). Forwarding back to the message's source is allowed but not required. The 65536-entry received-cache is never filled. Handler (OneShotHandler) and multistream negotiation are not exercised; RPCs enter at on_connection_handler_event.",
}


def run(c):
    c.tlc_mc("MCFloodNet", "MCFloodNet.cfg")
    c.tlc_mc("MCFloodNet", "MCFloodNet_canary_dup.cfg", expect="DeliverOnce")
    c.tlc_mc("MCFloodNet", "MCFloodNet_canary_echo.cfg", expect="NoEcho")
    c.tlc_mc("MCFloodNet", "MCFloodNet_canary_own.cfg", expect=["NoSelfDelivery", "ForwardOnce"])
    if not c.quick:
        c.tlc_mc("MCFloodNet", "MCFloodNet_asym.cfg")
        c.tlc_mc("MCFloodNet", "MCFloodNet_canary_own2.cfg", expect=["NoSelfDelivery", "ForwardOnce"])
        c.tlc_mc("MCFloodNet", "MCFloodNet_b4.cfg", timeout=1500)
        c.tlc_mc("MCFloodNet", "MCFloodNet_big.cfg", timeout=1500)
        c.tlc_mc("MCFloodNet", "MCFloodNet_big2.cfg", timeout=1500)
    drv = c.build("drv-xfloodsub")
    if c.replay:
        t = c.rundir / "replay_trace.ndjson"
        c.drive(drv, ["net", "replay", c.replay, t])
        traces = [t]
    else:
        t1 = c.rundir / "directed.ndjson"
        c.drive(drv, ["net", "directed", t1])
        t2 = c.rundir / "rand.ndjson"
        c.drive(drv, ["net", "random", c.seed, c.pick(100, 2000), t2])
        t3 = c.rundir / "exh.ndjson"
        # variants: 1 = nodes 1,2 subscribed beforehand, +2 = node 2 missing from node 0's partial view, +4 = reordering links, +8 = subscribe_local_messages
        c.drive(drv, ["net", "exhaustive", c.pick(3, 4), c.pick("3", "3,5,15"), t3])
        # one TLC start-up for the three sources in the quick tier
        if c.quick:
            allt = c.rundir / "all.ndjson"
            allt.write_text("".join(open(t).read() for t in (t1, t2, t3)))
            traces = [allt]
        else:
            traces = [t1, t2, t3]
    distinct = set()
    for t in traces:
        ok, total = c.tlc_trace("TraceFloodNet", t, timeout=2400)
        c.evaluations += total
        for line in open(t):
            ev = json.loads(line)
            if ev["e"] == "reset":
                ops = ev["sched"]["ops"]
                if any(o["a"] == "pub" for o in ops) and any(o["a"] in ("dlv", "flush") for o in ops):
                    distinct.add(json.dumps(ev["sched"], sort_keys=True))
                    if len(c.samples) < 3 and len(ops) <= 16:
                        c.sample(ev["sched"])
    c.distinct_nontrivial = len(distinct)
    return c.finish(
        "model_checking",
        rule="schedule = (nodes 2-5, topics 1-3, subscribe_local_messages per node, fifo or reordering links, op sequence over conn/disc/view/unview/sub/unsub/pub/inj/dlv/flush); 18 directed scenarios, seeded random schedules of 8-70 ops generated online (deliveries only on busy links), and every enabled op sequence of length 3 (thorough: 4) over subscribe/unsubscribe/publish(_any)/deliver on a three-node triangle in 1 (thorough: 3) start configurations; distinct = distinct schedules with a publish and a delivery",
        assumptions=["the driver plays Swarm and network: one RPC per NotifyHandler, RPCs of a closed link are lost",
                     "message identity = whole message; the received-cache (65536 entries) is never full"],
    )
