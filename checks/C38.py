"""C38 Closest-key enumeration is complete and sorted."""
import json

META = {
    "level": "model_checking",
    "technique": "TLA+ transcription of ClosestBucketsIter/ClosestIter model-checked against sort-by-distance for every target in every reachable table (canary: bucket 0 visited twice); closest_keys/closest output of the real KBucketsTable for all small tables x all targets evaluated by TLC against the relation 'every stored key once, non-decreasing distance', plus closest() calls inside random operation histories",
    "text": "TLC checks ClosestOK (bucket walk + per-bucket sort = global sort by XOR distance, for every target incl. the local key and stored keys) in every reachable state of the KBucket model and rejects the bucket-0-twice canary. The real closest_keys and closest are run on every table over 3-bit keys (all subsets, all targets, several local keys; thorough: 4-bit keys with up to 4 entries) under three embeddings into 256-bit keys (bottom bits, top bits, random scattered bits) and TLC evaluates the relation on every record; sampled tables over 6-bit keys with bucket size 64 whose farthest bucket holds 21-32 keys (more than the default bucket size K_VALUE = 20) are evaluated the same way; random insert/update/remove/tick histories with interleaved closest() calls (pending entries, mixed statuses) are validated against the trace spec.",
    "note": "Abstract b-bit keys (b<=4) embedded order-preservingly into 256-bit keys; the bottom embedding is the one that populates the real bucket 0.",
    "design_ref": "6/C38",
}


def run(c):
    c.tlc_mc("KBucket", c.pick("MCKBucket_q38.cfg", "MCKBucket.cfg"), timeout=1500)   # quick: no time passes (same reachable key sets)
    c.tlc_mc("KBucket", "MCKBucket_canary38.cfg", expect="ClosestOK")
    drv = c.build("drv-kad")
    nontriv = 0
    if c.replay:
        first = json.loads(open(c.replay).readline())
        if first.get("e") == "reset":
            t = c.rundir / "replay_trace.ndjson"
            c.drive(drv, ["kbucket", "replay", c.replay, t])
            ok, total = c.tlc_trace("TraceKBucket", t)
            c.evaluations += total
        else:
            r = c.rundir / "replay_closest.ndjson"
            c.drive(drv, ["kbucket", "closest-replay", c.replay, r])
            n, bad = c.tlc_relation("RelKadClosest", r)
            c.evaluations += n
        return c.finish("model_checking", rule="replay")
    recs = c.rundir / "closest.ndjson"
    if c.quick:
        c.drive(drv, ["kbucket", "closest", 3, 7, c.seed, recs, "locals=2"])
    else:
        c.drive(drv, ["kbucket", "closest", 4, 4, c.seed, recs, "big=150"])
    n, bad = c.tlc_relation("RelKadClosest", recs, timeout=3000)
    c.evaluations += n
    for line in open(recs):
        r = json.loads(line)
        if len(r["keys"]) >= 2:
            nontriv += 1
            if len(c.samples) < 2 and len(r["keys"]) == 3:
                c.sample({k: r[k] for k in ("B", "local", "keys", "t", "out", "pos")})
    t2 = c.rundir / "rand.ndjson"
    c.drive(drv, ["kbucket", "random", c.seed + 1000, c.pick(100, 1500), t2, "closest=2"])
    ok, total = c.tlc_trace("TraceKBucket", t2, timeout=2400,
                            attribute=lambda rec, reason: None if rec.get("e") == "closest" else "C37")
    for line in open(t2):
        ev = json.loads(line)
        if ev["e"] == "closest":
            c.evaluations += 1
            if sum(len(b) for b in ev["b"]) >= 2:
                nontriv += 1
    c.distinct_nontrivial = nontriv
    return c.finish(
        "model_checking",
        rule="record = (table = set of stored b-bit keys, local key, target, embedding); exhaustive over all tables x all targets for b=3 (thorough: b=4, <=4 entries) under bottom/top/random-scatter embeddings (records distinct by construction), plus closest(t) calls at random points of seeded random operation histories; non-trivial = at least two stored keys",
        assumptions=["abstract b-bit keys (b<=4) embedded into 256-bit keys by an order-preserving bit scattering"],
    )
