"""C49 Relayed circuits forward faithfully within their limits."""
import json

META = {
    "level": "model_checking",
    "technique": "TLA+ transcription of CopyFuture::poll/forward_data model-checked (prefix, byte bound, stall/ok/err obligations, refinement of the ordered pipe-or-fail ByteStream, canary); traces of the real CopyFuture between two scripted pipes validated by TLC against the property-level trace spec",
    "text": "TLC exhaustively checks the transcribed copy loop (2 directions, BufReader capacity 1-2, max_circuit_bytes 1 (quick) and 0/1/2 (thorough), all client write / transport delivery / write-budget / close / timer interleavings between polls) for: forwarded bytes are an exact prefix, never more than max + 2 read buffers forwarded, no stall above the limit or after the timer fired, nothing held back at a stall, Ok only when everything was forwarded within the limit; it also checks step refinement of ByteStream and rejects a canary (budget counted for one direction). The real CopyFuture (relay `verif::copy_future`) is driven between two scripted pipes with exhaustive short op sequences and seeded random long ones (writes up to 40000 bytes, chunked delivery, partial-write budgets, closes, injected I/O faults, real 60-140 ms Delay) and every recorded run is validated by TLC against TraceCopy.",
    "note": "One read buffer = 8192 bytes (futures BufReader default) is a parameter of the trace spec. Duration: lower bound measured; 'ends once the duration has passed' is checked by waiting for the real Delay to wake the task (up to 10 s) and requiring the next poll to end.",
    "design_ref": "6/C49",
}


def run(c):
    c.tlc_mc("ByteStream", "MCByteStream.cfg")
    c.tlc_mc("CopyLoop", "MCCopyLoop.cfg")
    c.tlc_mc("CopyLoop", "MCCopyLoop_canary.cfg", expect=["Bound", "StalledWithin", "OkComplete"])
    if not c.quick:
        c.tlc_mc("CopyLoop", "MCCopyLoop0.cfg", timeout=1500)      # max_circuit_bytes = 0: unlimited
        c.tlc_mc("CopyLoop", "MCCopyLoop2.cfg", timeout=1500)
        c.tlc_mc("CopyLoop", "MCCopyLoop3.cfg", timeout=1500)
    drv = c.build("drv-copy")
    traces = []
    if c.replay:
        t = c.rundir / "replay_trace.ndjson"
        c.drive(drv, ["replay", c.replay, t])
        traces = [t]
    else:
        t1 = c.rundir / "exh.ndjson"
        c.drive(drv, ["exhaustive", c.pick(3, 4), t1])
        t2 = c.rundir / "rand.ndjson"
        c.drive(drv, ["random", c.seed, c.pick(300, 4000), t2])
        t3 = c.rundir / "timed.ndjson"
        c.drive(drv, ["timed", c.pick(3, 12), t3])
        traces = [t1, t2, t3]
    distinct = set()
    stats = {"ok": 0, "err": 0, "timeout": 0, "max_overshoot": 0}
    allp = c.rundir / "all.ndjson"
    with open(allp, "w") as f:
        for t in traces:
            f.write(open(t).read())
    c.tlc_trace("TraceCopy", allp, timeout=1500)
    for t in traces:
        mx = fw = 0
        for line in open(t):
            ev = json.loads(line)
            if ev["e"] == "reset":
                mx, fw = ev["max"], 0
                ops = ev["sched"]["ops"]
                if any(o["a"] == "w" for o in ops) and any(o["a"] == "dl" for o in ops):
                    distinct.add(json.dumps(ev["sched"], sort_keys=True))
                    if len(ops) > 3:
                        c.sample(ev["sched"])
            elif ev["e"] == "fw":
                fw += ev["n"]
            elif ev["e"] == "done":
                stats[ev["res"]] += 1
                if ev["res"] == "err" and mx > 0:
                    stats["max_overshoot"] = max(stats["max_overshoot"], fw - mx)
            c.evaluations += 1
    c.distinct_nontrivial = len(distinct)
    return c.finish(
        "model_checking",
        rule="schedule = (max_circuit_bytes, budget mode, read/write chunk limits, op sequence over w(d,n)/dl(d,n)/close(d)/wb(d,n)/wbinf(d)/poll/fail/expire); exhaustive for length<=N over an 8-12 letter alphabet x max in {0,1,3} x {unlimited, per-byte budgets}; seeded random length 4..40 with sizes up to 40000 around the 8192 buffer boundary; every 7th random run drives the counter exactly to max and then floods both directions (overshoot max+2*8192); distinct = distinct schedules with at least one write and one delivery; evaluations = trace events",
        assumptions=["one read buffer = 8192 bytes (futures::io::BufReader default capacity)",
                     "real futures-timer Delay of 60-140 ms; elapsed >= duration asserted; expiry awaited up to duration + 10 s"],
        extra={"outcomes": stats},
    )
