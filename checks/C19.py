"""C19 Plaintext and pnet upgrades preserve data and reject mismatches."""
import json
import importlib.util
from pathlib import Path

META = {
    "level": "model_checking",
    "technique": "TLA+ transcriptions of the plaintext handshake/read-buffer hand-over and of pnet's CryptWriter model-checked as refinements of ByteStream (canaries: hand-over dropped, unflushed tail dropped); traces of the real upgrades over a scripted pipe validated by TLC against the property-level byte-stream trace spec; key-file records checked by a TLA+ relation",
    "text": "Plaintext: TLC checks the transcribed handshake for all 8 (idMatches,keyOK,idOK) combinations x all chunkings of exchange + 3 trailing bytes: Ok iff all hold, delivered bytes are an unaltered prefix, complete at quiescence. Real code: one real plaintext::Config against a scripted remote sending hand-built Exchanges (8 combinations x 2 key types x trailing 0/1/5/300 bytes x split sweeps) and two real endpoints under random chunk scripts. Pnet: TLC checks the CryptWriter transcription (4 bytes, inner budgets <= 3, all write/flush/grant/read interleavings; stream-cipher positions explicit); real code: two PnetConfig endpoints with every split point, boundary sizes around the 1024 buffer, random partial-write budgets. Key files: parse(print(k)) = k for random keys, and FromStr on fixed + generated texts (multi-byte UTF-8 key lines of byte length 64, CRLF, wrong headers, random text) never panics.",
    "note": "pnet has no integrity protection, so no corruption is injected there. The key-file clause is exploration level (generated inputs + relation).",
    "design_ref": "6/C19",
}


def _c17():
    spec = importlib.util.spec_from_file_location("c17", Path(__file__).with_name("C17.py"))
    m = importlib.util.module_from_spec(spec)
    spec.loader.exec_module(m)
    return m


def run(c):
    c.tlc_mc("Plaintext", "MCPlaintext.cfg")
    c.tlc_mc("Plaintext", "MCPlaintext_canary.cfg", expect=["Complete", "Prefix"])
    c.tlc_mc("Pnet", "MCPnet.cfg")
    c.tlc_mc("Pnet", "MCPnet_canary.cfg", expect=["Complete", "Prefix"])
    if not c.quick:
        c.tlc_mc("Plaintext", "MCPlaintext6.cfg", timeout=1500)
        c.tlc_mc("Pnet", "MCPnet7.cfg", timeout=1500)
    drv = c.build("drv-secure")
    traces, psk = [], None
    if c.replay:
        first = json.loads(open(c.replay).readline())
        if "kind" in first:
            psk = c.rundir / "replay_psk.ndjson"
            c.drive(drv, ["psk", "replay", c.replay, psk])
        else:
            sched = first.get("sched", first)
            mode = "stream" if "proto" in sched and "ops" in sched else "ptx"
            t = c.rundir / "replay_trace.ndjson"
            c.drive(drv, [mode, "replay", c.replay, t])
            traces = [t]
    else:
        jobs = [
            ("ptx_grid", ["ptx", "grid", c.pick(0, 1)]),
            ("ptx_rand", ["ptx", "random", c.seed, c.pick(150, 2000)]),
            ("pt_splits", ["stream", "splits", "plaintext", c.pick(3, 1)]),
            ("pt_rand", ["stream", "random", "plaintext", c.seed, c.pick(80, 1000)]),
            ("pn_splits", ["stream", "splits", "pnet", 1]),
            ("pn_boundary", ["stream", "boundary", "pnet"]),
            ("pn_rand", ["stream", "random", "pnet", c.seed, c.pick(150, 3000)]),
        ]
        for name, args in jobs:
            t = c.rundir / (name + ".ndjson")
            c.drive(drv, args + [t])
            traces.append(t)
        psk = c.rundir / "psk.ndjson"
        c.drive(drv, ["psk", "gen", c.seed, c.pick(300, 5000), psk])
    stats = {}
    if traces:
        allp = _c17().gather(c, traces, stats)
        c.tlc_trace("TraceByteStream", allp, timeout=1500)
    if psk:
        n, bad = c.tlc_relation("RelPsk", psk)
        c.evaluations += n
        c.distinct_nontrivial += len({l for l in open(psk)})
    return c.finish(
        "model_checking",
        rule="plaintext: scripted-remote grid (key type x 8 flag combinations x trailing bytes x chunk scripts incl. every single split point in thorough) + random; stream scripts for two real plaintext / pnet endpoints (all two-chunk split points, 8x8 boundary sizes around the 1024-byte CryptWriter buffer, seeded random op scripts with write budgets); key files: random keys + fixed and generated texts; distinct = distinct schedules that write at least one byte + distinct key-file records",
        assumptions=["content comparison against the position-determined pattern is done by the driver"],
        extra={"event_counts": stats},
    )
