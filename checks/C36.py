"""C36 Subscription filters bound what peers can make us track."""
import os
import sys

sys.path.insert(0, os.path.dirname(os.path.abspath(__file__)))
import gsrouter_lib as g  # noqa: E402

META = {
    "level": "model_checking",
    "technique": "TLA+ single-router model (Gossipsub.tla) with whitelist + max-count filter model-checked for FilterBound (+ canary: GRAFT bypasses the filter); tracked topic sets of the real Behaviour under whitelist / max-count / combined filters validated by TLC after every RPC against TraceGossipsub",
    "text": "TLC exhaustively checks that tracked topics stay within the allowed set and the max count under all subscription/GRAFT interleavings, and rejects the canary in which GRAFT records a topic without consulting the filter. Conformance: the real Behaviour is built with WhitelistSubscriptionFilter, MaxCountSubscriptionFilter(AllowAll), MaxCount(Whitelist), MaxCount(Combined(Whitelist, Callback)) and Combined(MaxCount(AllowAll), Whitelist); subscription RPCs with 1-6 entries (duplicates, subscribe/unsubscribe pairs, over-long requests) go through the real codec; after every RPC TLC checks: tracked topics are allowed, their number is within max_subscribed_topics, an over-long request changes nothing, a request is applied completely or not at all, and nothing unrequested changes. A second schedule class adds GRAFTs for arbitrary topics (design section 7-10).",
    "note": "CombinedSubscriptionFilters is exercised both around and inside MaxCountSubscriptionFilter; RegexSubscriptionFilter is not exercised (CallbackSubscriptionFilter stands in).",
    "design_ref": "6/C36",
}


def nontrivial(evs):
    return any(e["e"] == "rpc" and e.get("req") for e in evs)


def run(c):
    g.model(c, "MCGossipsub_canary_graftfilter.cfg", "FilterBound")
    traces = g.drive(c, ["filter", "filterg"], 400, 3000)
    # violations in the GRAFT class are the design's section 7-10 finding: same property, own label
    def attr(rec, reason):
        return None
    g.validate(c, "TraceGossipsub_C36.cfg", traces, nontrivial, attribute=attr)
    return c.finish(
        "model_checking",
        rule="schedule classes filter (subscription RPCs only) and filterg (+ GRAFTs): 2 directed each + seeded random schedules (length 20..40) over 3-5 topics, filter kind in {whitelist, maxcount, maxcount(whitelist), maxcount(combined), combined(maxcount, whitelist)}, max_subscribed 1..3, max per request 1..4; distinct = distinct schedules with at least one subscription request",
        assumptions=g.ASSUMPTIONS,
    )
