"""C18 TLS certificates bind the peer id to a proof of key possession."""
import json

META = {
    "level": "exploration",
    "technique": "TLA+ acceptance rule over abstract certificates; TLC checks the transcribed parse_unverified/verify procedure against the rule for every abstract certificate with <= 2 (3) extensions (canary: keep the last of two libp2p extensions); the rule is evaluated by TLC on records of the real certificate::parse for rcgen-built structural variants and byte mutations of really generated certificates",
    "text": "Abstract certificate = (self-signed?, validity now/expired/not-yet, sequence of extensions: libp2p extension with host H/X, signature ok / over wrong message / by another key, key decodable?, critical? | unknown extension critical?). TLC enumerates all of them up to 2 extensions (3 in thorough) and checks that the transcribed procedure accepts exactly when the rule holds and then reports the extension's host key. The driver builds each abstract certificate with rcgen (extension DER encoded independently of libp2p-tls; host keys ed25519/secp256k1/ecdsa (+rsa in thorough); certificate keys P-256/P-384/Ed25519) and feeds it to the real parse; plus every single-byte mutation (bit flips, 0xff, truncations, appended bytes) of one really generated certificate per host key type: accepted implies peer id unchanged.",
    "note": "Disallowed signature algorithms (SHA-1, MD5, explicit curve parameters) cannot be produced with rcgen offline and are not covered; RSA host keys (fixed test keys) only in the thorough tier. Exploration level: the model is an enumerator + oracle.",
    "design_ref": "6/C18",
}


def run(c):
    c.tlc_mc("TlsCert", "MCTlsCert.cfg")
    c.tlc_mc("TlsCert", "MCTlsCert_canary.cfg", expect="RuleOK")
    if not c.quick:
        c.tlc_mc("TlsCert", "MCTlsCert3.cfg", timeout=1500)
    drv = c.build("drv-secure")
    recs = c.rundir / "tlscert.ndjson"
    if c.replay:
        c.drive(drv, ["tlscert", "replay", c.replay, recs])
    else:
        c.drive(drv, ["tlscert", "gen", c.pick(0, 1), c.seed, recs])
    n, bad = c.tlc_relation("RelTlsCert", recs, timeout=1500)
    c.evaluations = n
    distinct = set()
    outcomes = {}
    for line in open(recs):
        r = json.loads(line)
        key = json.dumps(r.get("spec") or [r["key"], r["m"]], sort_keys=True)
        distinct.add(key)
        k = "%s:%s" % (r["kind"], r["res"])
        outcomes[k] = outcomes.get(k, 0) + 1
        if r["kind"] == "struct" and len(r["spec"]["exts"]) == 2 and r["spec"]["selfSigned"]:
            c.sample(r["spec"])
    c.distinct_nontrivial = len(distinct)
    return c.finish(
        "exploration",
        rule="struct: every extension sequence of length 0..2 over a 26-letter alphabet (24 libp2p-extension variants + unknown critical / non-critical) x host key type x envelope (self-signed, validity) [quick: envelope variants and extra key types sampled], + seeded length-3 sequences; mut: per host key type one generated certificate, every offset x {one bit, 0xff} (thorough: 8 bits, 0xff, 0x00), truncation at every 4th (every) length, appended bytes; distinct = distinct (spec) / (key type, mutation)",
        assumptions=["signature algorithm allow-list not exercised with disallowed algorithms (not constructible offline)"],
        extra={"outcomes": outcomes},
    )
