"""C42 Record lifetimes are never extended or lost in transit."""
import json

META = {
    "level": "model_checking",
    "technique": "TLA+ transcription of the expiry merge (record_received) and of the wire-ttl encoding/decoding (record_to_proto/record_from_proto) checked by TLC over an Option-valued millisecond grid (two canaries = the two defects fixed in /repo); relation evaluated by TLC on records produced by a real Behaviour<MemoryStore> receiving PutRecord handler events and by the real protobuf conversions",
    "text": "TLC checks on a grid (None / 0..3000 ms step 250, all pairs) that the transcribed merge yields the smaller expiry and None only if both are None, and that the wire ttl is >= 1 s iff the record expires and never rounds the lifetime up past the next second; both canaries (Option::min with None, missing 1 s floor) are rejected. The real code: inbound PutRecord events with every presence combination of record expiry x record_ttl x StoreInserts filtering x routing-table population (grid incl. expired, 0.2 s, 0.999 s, 1 s, 90 s, 1000 s plus seeded random values) are fed to a real Behaviour and the stored record / the record handed to the application is read back; outgoing PutValue requests and GetValue responses are encoded with arbitrary remaining lifetimes (incl. sub-second), received ttls are decoded; TLC evaluates the lifetime relation on every record with bounds taken from instants measured around the call.",
    "note": "No clock control: expiries are compared exactly against the peer's expiry and against (instant after the call + ttl), an upper bound of what the code may legitimately compute. Wire rounding up to the next whole second is tolerated (1 s floor).",
    "design_ref": "6/C42",
}


def run(c):
    c.tlc_mc("KadRecord", "MCKadRecord.cfg")
    c.tlc_mc("KadRecord", "MCKadRecord_canary.cfg", expect="MergeOK")
    c.tlc_mc("KadRecord", "MCKadRecord_canary2.cfg", expect="WireOK")
    drv = c.build("drv-kad")
    recs = c.rundir / "lifetimes.ndjson"
    if c.replay:
        c.drive(drv, ["record", "replay", c.replay, recs])
    else:
        c.drive(drv, ["record", "lifetimes", c.seed, c.pick(300, 6000), recs])
    n, bad = c.tlc_relation("RelKadRecord", recs, timeout=2400)
    c.evaluations = n
    nt = 0
    for line in open(recs):
        r = json.loads(line)
        if r.get("rhas") or r.get("thas") or r.get("wttl", 0) > 0:
            nt += 1
            if len(c.samples) < 4 and r["m"] in ("merge", "wire") and r.get("rhas"):
                c.sample(r)
    c.distinct_nontrivial = nt
    return c.finish(
        "model_checking",
        rule="record = one call of the real code: merge(record expiry or none, record_ttl or none, filtering, routing-table size) / wire(remaining lifetime or none, request|response) / dec(wire ttl); fixed grid (expired, 0.2 s, 0.999 s, 1 s, 1.5 s, 90 s, 1000 s x none, 1 s, 1.5 s, 60 s, 1000 s) plus seeded random values; non-trivial = an expiry, a TTL or a non-zero wire ttl is involved",
        assumptions=["instants are reported as microsecond offsets from an instant taken immediately before the call; the configured bound uses the instant taken immediately after it",
                     "lifetimes <= 1000 s (32-bit microsecond arithmetic in TLC)"],
    )
