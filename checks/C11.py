"""C11 Protocol-change notifications track the advertised protocol sets."""
import json

META = {
    "level": "model_checking",
    "technique": "TLA+ model of ProtocolsChange::from_full_sets (set semantics + count-shortcut canary) model-checked; traces of a real connection with a probe handler validated by TLC against the fold trace spec",
    "text": "TLC checks that folding the Added/Removed events equals the valid advertised set for every sequence of advertised lists (length <= 3 over {/a,/b,/c,bad}, duplicates included), and that the count-shortcut canary (the defect repaired in a9edb36) breaks it. Conformance: a real established connection whose probe handler changes its listen_protocol() list and reports remote protocol additions/removals; every (initial list, next list) pair of lists of length <= 2 (3 thorough) plus seeded random multi-step schedules are executed, each LocalProtocolsChange / RemoteProtocolsChange delivered to the handler is recorded, and TLC checks at every quiescent point that the local fold equals the valid names currently advertised and the remote fold equals added-minus-removed.",
    "note": "Validity of a name = starts with '/', decided by the driver independently of the code under test.",
    "design_ref": "6/C11",
}


def run(c):
    c.tlc_mc("ProtoChange", "MCProtoChange.cfg")
    c.tlc_mc("ProtoChange", "MCProtoChange_canary.cfg", expect="FoldMatches")
    drv = c.build("drv-swarm")
    traces = []
    if c.replay:
        t = c.rundir / "replay_trace.ndjson"
        c.drive(drv, ["proto", "replay", c.replay, t])
        traces = [t]
    else:
        t1 = c.rundir / "pairs.ndjson"
        c.drive(drv, ["proto", "pairs", c.pick(2, 3), t1], timeout=3000)
        t2 = c.rundir / "rand.ndjson"
        c.drive(drv, ["proto", "random", c.seed + 9, c.pick(400, 5000), t2], timeout=3000)
        traces = [t1, t2]
    distinct = set()
    for t in traces:
        ok, total = c.tlc_trace("TraceProtoChange", t, timeout=c.pick(600, 3000))
        c.evaluations += total
        for line in open(t):
            ev = json.loads(line)
            if ev["e"] == "reset":
                s = ev["sched"]
                lists = [s["init"]] + [x.get("list", []) for x in s["cmds"]]
                if any(len(set(l)) != len(l) or 3 in l for l in lists):
                    distinct.add(json.dumps(s, sort_keys=True))
                    if len(c.samples) < 3:
                        c.sample(s)
    c.distinct_nontrivial = len(distinct)
    return c.finish("model_checking",
                    rule="schedule = initial protocol list + commands set(list)/remote(added,list)/poll over names {/a,/b,/c,bad}; exhaustive pairs of lists (length<=N) and seeded random schedules; distinct schedules; non-trivial = some list has duplicates or the invalid name",
                    assumptions=["one connection, composite handler of three probe handlers of which only the first advertises protocols"])
