"""Shared pipeline for the Swarm connection-lifecycle properties (C01, C02, C05, C06)."""
import json

CANARY = {"C01": ("MCSwarmConn_dupClosed.cfg", "ClosedOnce"), "C02": ("MCSwarmConn_noDecPending.cfg", "CountersOK"),
          "C05": ("MCSwarmConn_skipLocalCheck.cfg", "IdentityOK"), "C06": ("MCSwarmConn_spawnOnDeny.cfg", "DeniedFinal")}
INTEREST = {"C01": ("cbConnClosed", "cbDialFailure", "cbListenFailure"), "C02": ("cbConnEstablished",),
            "C05": ("envDial", "envUpgrade"), "C06": ("cbPendingIn", "cbPendingOut", "cbEstIn", "cbEstOut")}


def run_conn(c, extra_args=()):
    pid = c.pid
    # (M)
    c.tlc_mc("SwarmConn", "MCSwarmConn.cfg")
    cfg, inv = CANARY[pid]
    c.tlc_mc("SwarmConn", cfg, expect=inv)
    if not c.quick:
        c.tlc_mc("SwarmConn", "MCSwarmConn3.cfg", timeout=1500, workers=8)
    # (R)
    drv = c.build("drv-swarm")
    traces = []
    if c.replay:
        t = c.rundir / "replay_trace.ndjson"
        import json as _j
        first = _j.loads(open(c.replay).readline())
        mode = "pairs" if first.get("sched", first).get("cfg", {}).get("suite") == "pairs" else "conn"
        c.drive(drv, [mode, "replay", c.replay, t])
        traces.append(t)
    else:
        t = c.rundir / "conn.ndjson"
        c.drive(drv, ["conn", "random", c.seed * 7919 + 11, c.pick(150 if pid in ("C05", "C06") else 250, 3000), t, "steps=%d" % c.pick(25, 30)] + list(extra_args))
        traces.append(t)
        # (G) TLC-generated behaviours of the SwarmConn model (simulation, seeded) replayed into the real Swarm
        gen, n, _ = c.tlc_gen("GenSwarmConn", "GenSwarmConn.cfg", num=c.pick(150, 3000), depth=24, timeout=c.pick(300, 1500))
        sched = c.rundir / "tlc_sched.ndjson"
        with open(sched, "w") as f:
            for line in open(gen):
                f.write(json.dumps({"cfg": {"concurrency": 2, "source": "tlc"}, "cmds": json.loads(line)}) + "\n")
        t4 = c.rundir / "tlc_conn.ndjson"
        c.drive(drv, ["conn", "replay", sched, t4])
        traces.append(t4)
        c.extra_cov["tlc_generated_schedules"] = n
        if pid in ("C01", "C02", "C06"):
            # real pairs: 2-3 real Swarms over memory transport + plaintext + yamux, hand-polled in schedule order;
            # each Swarm's events form one run of the same trace spec
            t3 = c.rundir / "pairs.ndjson"
            c.drive(drv, ["pairs", "random", c.seed * 7919 + 13, c.pick(60, 1500), t3])
            traces.append(t3)
        if pid in ("C05", "C06"):
            # more adversarial mix: more connections, every identity / denial combination occurs often
            t2 = c.rundir / "conn2.ndjson"
            c.drive(drv, ["conn", "random", c.seed * 7919 + 12, c.pick(100, 2000), t2, "steps=18", "maxconn=6"])
            traces.append(t2)
    # (V)
    distinct = set()
    for t in traces:
        ok, total = c.tlc_trace("TraceSwarmConn", t, env={"PROP": pid}, timeout=c.pick(600, 3000))
        c.evaluations += total
        cur = None
        hit = False
        for line in open(t):
            ev = json.loads(line)
            if ev["e"] == "reset":
                if cur is not None and hit:
                    distinct.add(cur)
                cur = json.dumps(ev["sched"], sort_keys=True)
                hit = False
                if len(c.samples) < 2:
                    c.sample({"schedule": ev["sched"]["cmds"][:12]})
            elif ev["e"] in INTEREST[pid]:
                if pid == "C05":
                    hit = hit or (ev.get("applied") and ev.get("ok"))
                elif pid == "C06":
                    hit = hit or ev.get("deny")
                else:
                    hit = True
                if hit and len(c.samples) < 5 and ev["e"].startswith("cb"):
                    c.sample(ev)
        if cur is not None and hit:
            distinct.add(cur)
    c.distinct_nontrivial = len(distinct)
    return distinct
