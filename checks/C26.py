"""C26 Mplex enforces its substream and buffer limits without losing data."""
import json

META = {
    "level": "model_checking",
    "technique": "TLA+ model of the mplex receive side (substream table, per-stream buffers, open buffer, pending frames, blocking stream) against a raw frame injector model-checked for the limits/no-loss invariants (canary: off-by-one in on_open); a real Multiplex endpoint is driven against a raw frame injector (frames encoded with the crate's codec, flooding without flow control) with scripted slow readers, and the substream table snapshots, API results and wire output are validated by TLC against the property-level trace spec",
    "text": "TLC exhaustively checks the transcribed receive side (2-3 stream ids, max_substreams 1-2, max_buffer_len 1, Block and ResetStream, 3 data frames per stream). A real Multiplex over a scripted pipe is flooded by an injector (incl. a close of a remotely closed substream while the frame sink is back-pressured with > 128 KiB, after which the buffered data and EOF must still be read; open floods, data floods on accepted / not yet accepted / locally opened streams, zero-length frames, remote close/reset, unwritable wire) for a grid of (max_substreams, max_buffer_len, behaviour, read chunking) plus seeded random schedules; after every application op the table snapshot (verif hook) must respect both limits, resets must be justified (table full / overflow / drop), reads must be prefixes of what was injected, EOF only after all bytes, and after a final drain nothing may be missing (Block) or only after an overflow answered with Reset (ResetStream).",
    "note": "Substream table size and buffer lengths are observed through a read-only verif hook after every application-level op, not inside a poll. Remote stream ids are never reused within a run.",
    "design_ref": "6/C26",
}


def run(c):
    # (M) the code as it is (after the two fixes this check led to) + one canary per switch
    c.tlc_mc("Mplex", "MCMplex_block.cfg")
    c.tlc_mc("Mplex", "MCMplex_reset.cfg")
    c.tlc_mc("Mplex", "MCMplex_canary.cfg", expect="SubstreamLimit")
    c.tlc_mc("Mplex", "MCMplex_canary_drop.cfg", expect="NoDeadBlock")
    c.tlc_mc("Mplex", "MCMplex_canary_reset.cfg", expect="HandedInTable")
    if not c.quick:
        c.tlc_mc("Mplex", "MCMplex_reset2.cfg", timeout=1500)
        c.tlc_mc("Mplex", "MCMplex_big.cfg", timeout=1500)
    drv = c.build("drv-mux")
    if c.replay:
        t = c.rundir / "replay_trace.ndjson"
        c.drive(drv, ["limits", "replay", c.replay, t])
        traces = [t]
    else:
        t1 = c.rundir / "scen.ndjson"
        c.drive(drv, ["limits", "scenarios", c.pick(1, 2), t1])
        t2 = c.rundir / "rand.ndjson"
        c.drive(drv, ["limits", "random", c.seed, c.pick(300, 5000), t2])
        traces = [t1, t2]
    distinct = set()
    for t in traces:
        c.tlc_trace("TraceMplexLimits", t)
        for line in open(t):
            if not line.startswith('{"block"'):
                c.evaluations += 1
                continue
            ev = json.loads(line)
            s = ev["sched"]
            ops = s["ops"]
            nd = sum(1 for o in ops if o["a"] == "inj" and o["f"] == "data")
            no = sum(1 for o in ops if o["a"] == "inj" and o["f"] == "open")
            # non-trivial: the schedule can actually hit a limit
            if nd > s["max_buf"] or no > s["max_sub"]:
                distinct.add(json.dumps(s, sort_keys=True))
                if len(c.samples) < 2:
                    c.sample({k: s[k] for k in ("max_sub", "max_buf", "block")} | {"ops": ops[:12]})
    c.distinct_nontrivial = len(distinct)
    return c.finish(
        "model_checking",
        rule="schedule = (max_substreams, max_buffer_len, behaviour, read chunk, op list over inject open/data/close/reset, accept, read, drop, open, write, flush, close, wire budget); six flood scenarios over a grid of limits x behaviour x chunking + seeded random schedules of 8..60 ops (bursts of max_buffer_len+3 data frames, 60% flooding one stream); distinct = distinct schedules injecting more data frames than max_buffer_len or more opens than max_substreams; evaluations = events validated",
        assumptions=["table/buffer sizes observed via verif hook between application ops", "stream ids not reused within a run"],
    )
