"""C25 Mplex framing round-trips and bounds hostile input."""
import json

META = {
    "level": "model_checking",
    "technique": "TLA+ transcription of the mplex Codec decode state machine model-checked over all frame sequences and chunkings (round trip with mirrored roles, error only at the first bad frame, oversize rejected before any payload is awaited, type 7 rejected; canary = limit checked after buffering); the real Codec is fed exhaustively split and seeded random streams and every decode result is validated by TLC against the property-level trace spec",
    "text": "TLC exhaustively checks the transcribed decoder (2-3 frames over header/length varints of 1-2 units, payloads 0..limit+1, types incl. invalid 7, every chunking). The real codec (via the verif hook) decodes streams of all frame kinds x roles x ids {0,1,15,16,2^60-1,2^61-1} x payload sizes {0,1,5,127,128, 1MiB-1, 1MiB} at every single split point (thorough: every pair of split points), hostile frames (declared length 1MiB+1.., u32::MAX, type 7, payload on non-data frames), the encoder's refusal of oversize payloads, and seeded random streams / random bytes; TLC validates every out/none/err against the statement.",
    "note": "Random-byte runs can only be checked for absence of panics and the 1 MiB bound on emitted frames. Payload equality is compared through length + a 20-bit fingerprint.",
    "design_ref": "6/C25",
}


def run(c):
    # (M)
    c.tlc_mc("MplexFraming", "MCMplexFraming.cfg")
    c.tlc_mc("MplexFraming", "MCMplexFraming_canary.cfg", expect="RejectBeforeBuffering")
    if not c.quick:
        c.tlc_mc("MplexFraming", "MCMplexFraming_full.cfg", timeout=1500)
        c.tlc_mc("MplexFraming", "MCMplexFraming3.cfg", timeout=1500)
    # (R)
    drv = c.build("drv-mux")
    if c.replay:
        t = c.rundir / "replay_trace.ndjson"
        c.drive(drv, ["codec", "replay", c.replay, t])
        traces = [t]
    else:
        t1 = c.rundir / "exh.ndjson"
        c.drive(drv, ["codec", "exhaustive", c.pick(1, 2), t1])
        t2 = c.rundir / "rand.ndjson"
        c.drive(drv, ["codec", "random", c.seed, c.pick(400, 6000), t2])
        traces = [t1, t2]
    # (V)
    distinct = set()
    for t in traces:
        ok, total = c.tlc_trace("TraceMplexFraming", t)
        for line in open(t):
            if not line.startswith('{"e":"reset"'):
                c.evaluations += 1
                continue
            ev = json.loads(line)
            s = ev["sched"]
            key = json.dumps(s, sort_keys=True)
            # non-trivial: the stream is actually split somewhere, or contains a hostile frame
            if s.get("cuts") or "garbage" in s or any(f.get("k") == "Raw" for f in s.get("frames", [])):
                distinct.add(key)
            if len(c.samples) < 3 and s.get("cuts") and "frames" in s:
                c.sample(s)
    c.distinct_nontrivial = len(distinct)
    return c.finish(
        "model_checking",
        rule="schedule = (frame list | raw bytes, chunk sizes); exhaustive: every base stream (all kinds x roles x boundary ids x boundary sizes, hostile frames) unsplit, split at every byte position, byte-by-byte (thorough: every pair of positions) + frames at the 1 MiB limit at header/body split points; random: seeded streams of 1..6 frames with random ids/sizes/chunk styles, 20% raw garbage; distinct = distinct schedules that are split or contain a hostile frame; evaluations = decode/encode results validated",
        assumptions=["payload equality via length + fingerprint", "64-bit usize (declared lengths up to u32::MAX explored)"],
    )
