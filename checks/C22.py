"""C22 Global-only transport never dials non-global IPs."""
import json

META = {
    "level": "exploration",
    "technique": "IANA IPv4/IPv6 special-purpose registries as TLA+ constant tables; TLC derives the class (MUST_REFUSE / MUST_PASS / DONT_CARE) of every address interval and the boundary probes, checks a transcription of is_global against them (3 canaries), and evaluates the class relation on every observation of the real global_only::Transport::dial (probes, exhaustive run-length-encoded windows around every block boundary, strided and random samples; thorough: the entire IPv4 space)",
    "text": "The registry tables (25 IPv4 rows, 24 IPv6 rows incl. the 2023-2024 additions, plus 2 rows flagged unverified) live in specs/GlobalIp.tla. TLC computes for every block first-1, first, last, last+1 (159 probes); the driver dials each through the real libp2p_core::transport::global_only::Transport around a recording inner transport, sweeps every address within +-16384 (thorough +-65536) of each probe exhaustively, adds strided IPv4 and structured/random IPv6 samples and (thorough) sweeps all 2^32 IPv4 addresses, run-length encoding the observed result. TLC evaluates each record: an address whose most specific registry block is marked not globally reachable must be refused with MultiaddrNotSupported without reaching the inner transport, an address outside every block must reach it, addresses not starting with an IP are refused. A pure total function over a finite, explicitly partitioned domain: enumeration against the registry is the appropriate level.",
    "note": "Registry transcribed from memory of the IANA registries (offline sandbox); rows marked reachable or N/A (192.0.0.9, 192.88.99.0/24, 2002::/16, Teredo, ...) are DONT_CARE. Two rows the author could not confirm offline (192.88.99.2/32, 100:0:0:1::/64) are deliberately DONT_CARE.",
    "design_ref": "6/C22",
}


def run(c):
    c.tlc_mc("GlobalIpCode", "MCGlobalIp.cfg")
    c.tlc_mc("GlobalIpCode", "MCGlobalIp_canary.cfg", expect="CodeMatchesRegistry")
    c.tlc_mc("GlobalIpCode", "MCGlobalIp_canary2.cfg", expect="CodeMatchesRegistry")
    c.tlc_mc("GlobalIpCode", "MCGlobalIp_canary3.cfg", expect="CodeMatchesRegistry")
    drv = c.build("drv-core")
    files = []
    if c.replay:
        t = c.rundir / "replay_records.ndjson"
        c.drive(drv, ["globalip", "probes", c.replay, t])
        files.append(t)
    else:
        probes, n, _ = c.tlc_gen("GenGlobalIp", "GenGlobalIp.cfg", exhaustive=True)
        t = c.rundir / "probes.ndjson"
        c.drive(drv, ["globalip", "probes", probes, t])
        files.append(t)
        t = c.rundir / "windows.ndjson"
        c.drive(drv, ["globalip", "windows", probes, c.pick(16384, 65536), c.seed, c.pick(4000, 20000), t])
        files.append(t)
        if not c.quick:
            t = c.rundir / "all4.ndjson"
            c.drive(drv, ["globalip", "all4", 6, t], timeout=3000)
            files.append(t)
    nontrivial = 0
    for f in files:
        n, bad = c.tlc_relation("RelGlobalIp", f, timeout=3000)
        for line in open(f):
            r = json.loads(line)
            if r["v"] == 0:
                nontrivial += 1
                continue
            if r["from"] != r["to"]:
                nontrivial += 1  # an interval record: contains a result change at its end
                if len(c.samples) < 4:
                    c.sample(r)
    c.evaluations = c.traces_ok
    c.distinct_nontrivial = nontrivial
    return c.finish(
        "exploration",
        rule="record = maximal interval of consecutive addresses with the same observed dial result (from, to, result) or a single sampled address; inputs: TLC's boundary probes of every registry block, exhaustive windows around them, strided IPv4 / structured + random IPv6 samples, thorough: every IPv4 address; distinct_nontrivial = interval records and non-IP cases (single samples are trivial)",
        assumptions=["registry content transcribed offline (see note)", "the leading IP decides; following components are varied (bare, /tcp, /udp/quic-v1)"],
    )
