"""C39 Iterative lookups are bounded, terminate and return the closest responders."""
import json

META = {
    "level": "model_checking",
    "technique": "TLA+ transcriptions of ClosestPeersIter (next/on_success/on_failure/at_capacity/stall logic), of the disjoint-path wrapper (without time) and of FixedPeersIter model-checked against every response/failure/timeout pattern of a small peer graph (canaries: '>' in at_capacity, closer peers shared between paths, missing decrement); every call on the real ClosestPeersIter, ClosestDisjointPeersIter and FixedPeersIter under exhaustive short and seeded adaptive environments validated by TLC against a property-level trace spec",
    "text": "TLC exhaustively explores the transcribed ClosestPeersIter over 4-5 peers (parallelism 1-2, num_results 2-3, peer timeout 2, every closer-peer subset, failure and timeout pattern) for: counter = number of waiting peers, in-flight bound, requests issued only below the limit in force, no closer known peer left uncontacted/waiting at self-termination, finish only when done, no stuck state; the ClosestDisjointPeersIter model (3-4 peers, 2 paths: per-path bounds, each peer contacted once, closer peers reach one path only, result size, no stuck state) and the FixedPeersIter model (duplicates in the list). The real iterators are run over real PeerIds named by their distance rank to a real target with synthetic instants: all environment sequences of length 3-4 over a 11-letter alphabet on a 3-peer world (4 configurations per iterator kind) and seeded adaptive random environments (2-9 peers, answers mostly for outstanding requests, arbitrary closer-peer sets, late answers after timeouts, finish()); after the schedule every outstanding request fails or times out and the lookup must reach Finished within a step budget. TLC validates each recorded call against the statement (known/contacted/in-flight sets rebuilt from the calls; which known peer is chosen is unconstrained).",
    "note": "The limit in force is taken as parallelism until `parallelism` successes have been delivered (a stall cannot happen earlier) and max(num_results, parallelism) afterwards: the exact stall rule is implementation-defined (doc comment and code disagree), so it is not re-derived. For the disjoint-path iterator the bounds are per path (parallelism paths) and its result may hold parallelism * num_results peers, as its documentation says; its MC model has no peer timeouts (covered per path by the ClosestPeersIter model).",
    "design_ref": "6/C39",
}

KINDS = "kinds=closest,closest,fixed,disjoint"


def run(c):
    c.tlc_mc("KadLookup", c.pick("MCKadLookup_q.cfg", "MCKadLookup.cfg"), timeout=1500)
    c.tlc_mc("KadLookup", "MCKadLookup_canary.cfg", expect=["InFlightBound", "IterBound", "IssueWithinCapacity"])
    c.tlc_mc("MCKadFixed", "MCKadFixed.cfg")
    c.tlc_mc("MCKadFixed", "MCKadFixed_canary.cfg", expect=["CounterExact", "StuckFree", "Bound"])
    c.tlc_mc("KadDisjoint", c.pick("MCKadDisjoint_q.cfg", "MCKadDisjoint.cfg"), timeout=1500)
    c.tlc_mc("KadDisjoint", "MCKadDisjoint_canary.cfg", expect="Disjoint")
    if not c.quick:
        c.tlc_mc("KadLookup", "MCKadLookup_b.cfg", timeout=1500)
    drv = c.build("drv-kad")
    if c.replay:
        t = c.rundir / "replay_trace.ndjson"
        c.drive(drv, ["lookup", "replay", c.replay, t])
        traces = [t]
    else:
        t1 = c.rundir / "exh.ndjson"
        c.drive(drv, ["lookup", "exhaustive", c.pick(2, 3), t1, "kinds=closest,fixed,disjoint"])
        t2 = c.rundir / "rand.ndjson"
        c.drive(drv, ["lookup", "random", c.seed, c.pick(250, 4000), t2, KINDS])
        traces = [t1, t2]
    distinct = set()
    for t in traces:
        ok, total = c.tlc_trace("TraceKadLookup", t, timeout=2400)
        c.evaluations += total
        run_has = False
        sched = None
        for line in open(t):
            ev = json.loads(line)
            if ev["e"] == "reset":
                sched = ev["sched"]
            elif ev["e"] in ("succ", "fail") and ev.get("ret") and sched is not None:
                distinct.add(json.dumps(sched, sort_keys=True))
                if len(c.samples) < 3 and len(sched["ops"]) <= 6:
                    c.sample(sched)
    c.distinct_nontrivial = len(distinct)
    return c.finish(
        "model_checking",
        rule="schedule = (iterator kind, number of peers, parallelism, num_results, peer timeout, initially known ranks, environment op sequence over next / succ(p, closer ranks) / fail(p) / tick(d) / finish, then a deterministic drain that fails or times out every outstanding request); exhaustive for length<=N over 11 letters on a 3-peer world, plus seeded adaptive random schedules of length 3..30; distinct = distinct schedules in which at least one answer was accepted by the iterator",
        assumptions=["peers are named by their rank in the real XOR distance order to the target; instants are synthetic (1 unit = 1 s)",
                     "termination is judged by the driver's drain loop with a step budget of 6*N+12 calls"],
    )
