"""C06 A behaviour's connection denial is final"""
import importlib.util
import os

_spec = importlib.util.spec_from_file_location("_swarmconn", os.path.join(os.path.dirname(os.path.abspath(__file__)), "_swarmconn.py"))
_m = importlib.util.module_from_spec(_spec)
_spec.loader.exec_module(_m)

META = {
    "level": "model_checking",
    "technique": "TLA+ model of the pool/swarm lifecycle model-checked with TLC (+canary); traces of a real Swarm over a puppet transport validated by TLC against the property-level trace spec TraceSwarmConn (PROP=C06 guards)",
    "text": 'Same model (DeniedFinal invariant + spawn-despite-denial canary). Conformance: a #[derive(NetworkBehaviour)] struct of three probe behaviours answers each of the four decision callbacks from the schedule (random deny at pending/established stage per field), for dials made by the application, inbound connections and dials requested by a behaviour through ToSwarm::Dial; TLC checks that an id denied by any field is never reported established, never shows up in counters, produces no IncomingConnection event after a pending-stage denial and ends with exactly one failure.',
    "note": "handler creation is observed through the probe behaviours' handle_established_* callbacks and the counters",
    "design_ref": "6/C06",
}


def run(c):
    _m.run_conn(c)
    return c.finish(
        "model_checking",
        rule="seeded random command schedules (dial/incoming/envDial/envUpgrade/failMux/close/disconnect/behClose/keepAlive/poll/poll1, 18-30 steps, <=4-6 connections, dial concurrency 1-3, deny probability 0/0.1/0.3) executed on a real Swarm; distinct = distinct schedules; non-trivial = the run contains at least one event the property talks about (a denial)",
        assumptions=["single-threaded deterministic polling (Config::without_executor) - thread interleavings inside one Swarm are not explored",
                     "PuppetTransport/PuppetMuxer stand in for real transports in the puppet runs; the pair runs use MemoryTransport + plaintext + yamux"],
    )
