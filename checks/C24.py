"""C24 Multiplexed substreams deliver exactly their own bytes."""
import json

META = {
    "level": "model_checking",
    "technique": "TLA+ frame-level model of two muxer endpoints (tagged data frames on one FIFO connection per direction, per-substream receive buffers, split writes, half-close) model-checked for ByteStream refinement per substream and direction (canaries: LIFO buffer, data filed under another id); two REAL StreamMuxer endpoints (mplex and yamux through the same driver) over a scripted pipe with manual chunk delivery; every byte is tagged (handle, offset) and TLC validates every read/EOF against the property-level pairing + prefix spec",
    "text": "TLC exhaustively checks the frame-level two-endpoint model (2 substreams opened from both sides, split size 1-2, up to 3-4 bytes per direction, half-closes, every interleaving of write/recv/read). Real mplex and yamux endpoint pairs run short exchanges (two substreams from one side with interleaved writes, flushes, half-closes and answers; simultaneous opens from both sides) with the connection bytes released at every single split point (thorough: every pair, and both directions) and byte by byte, plus seeded random interleavings of open/accept/write/flush/close/read on both endpoints with random chunk deliveries, split_send_size 1..8192, max_buffer_len 1..32 and pipe read/write chunking; TLC checks that each handle only ever reads bytes tagged by one consistent peer handle, as a prefix in order, EOF only after the writer's close and all bytes, and after a final drain that everything written arrived.",
    "note": "No resets/drops of substreams inside a run (the statement is about opens, writes, flushes, half-closes). yamux internals are an external crate: only the pipe-level spec applies to it. At most 4 opened + 4 accepted substreams per endpoint and run.",
    "design_ref": "6/C24",
}


def run(c):
    c.tlc_mc("MuxPipe", "MCMuxPipe.cfg")
    c.tlc_mc("MuxPipe", "MCMuxPipe_canary.cfg", expect="InOrderOwnBytes")
    c.tlc_mc("MuxPipe", "MCMuxPipe_canary2.cfg", expect=["InOrderOwnBytes", "Delivered", "EofAfterCloseAndAll"])
    if not c.quick:
        c.tlc_mc("MuxPipe", "MCMuxPipe4.cfg", timeout=1500)
        c.tlc_mc("MuxPipe", "MCMuxPipe_both.cfg", timeout=1500)
    drv = c.build("drv-mux")
    if c.replay:
        t = c.rundir / "replay_trace.ndjson"
        c.drive(drv, ["streams", "replay", c.replay, t])
        traces = [t]
    else:
        t1 = c.rundir / "splits.ndjson"
        c.drive(drv, ["streams", "splits", c.pick(1, 2), t1])
        t2 = c.rundir / "rand.ndjson"
        c.drive(drv, ["streams", "random", c.seed, c.pick(400, 6000), t2])
        traces = [t1, t2]
    distinct = set()
    per_mux = {"mplex": 0, "yamux": 0}
    for t in traces:
        c.tlc_trace("TraceMuxStreams", t)
        sched = None
        moved = 0
        for line in open(t):
            if line.startswith('{"e":"reset"'):
                if sched is not None and moved > 0:
                    distinct.add(sched)
                ev = json.loads(line)
                sched = json.dumps(ev["sched"], sort_keys=True)
                per_mux[ev["mux"]] += 1
                moved = 0
                if len(c.samples) < 2:
                    c.sample({"mux": ev["mux"], "ops": ev["sched"]["ops"][:14]})
            else:
                c.evaluations += 1
                if line.startswith('{"bytes"') and '"e":"read"' in line:
                    moved += 1
        if sched is not None and moved > 0:
            distinct.add(sched)
    c.distinct_nontrivial = len(distinct)
    c.extra_cov["runs_per_muxer"] = per_mux
    return c.finish(
        "model_checking",
        rule="schedule = (muxer, split_send_size, max_buffer_len, pipe chunking, op list over open/accept/write/flush/close/read per endpoint + deliver(dir, n)); exhaustive: two fixed exchanges with the wire released at every split point (thorough: every pair of split points / every combination for both directions) and byte by byte; random: seeded interleavings of 10..70 ops; distinct = distinct schedules in which application bytes were actually read by the peer; evaluations = events validated",
        assumptions=["no substream drop/reset inside a run", "handles per endpoint <= 8"],
    )
