"""C10 Idle connections close only when truly idle."""
import json

META = {
    "level": "model_checking",
    "technique": "TLA+ model of the idle-shutdown logic (compute_new_shutdown, busy test) model-checked (+timer-not-reset canary); traces of a real connection with scripted streams / keep-alive validated by TLC against the property-level trace spec",
    "text": "TLC explores the transcribed shutdown logic (timeouts 0 and 2, <= 2 streams, time <= 5) for never-closed-while-busy and not-before-timeout, and rejects a canary that does not clear the timer when the connection becomes busy. Conformance: one real established connection over a puppet muxer that hands out in-memory substreams on command; the probe handler requests outbound streams, holds, half-closes (write half closed, stream still held), drops or marks streams ignore_for_keep_alive and flips connection_keep_alive; the remote end of each substream is a real multistream-select future that the schedule may leave un-negotiated. Seeded schedules with idle_timeout 0 (fully deterministic: an idle connection must be gone after a poll to quiescence, a busy one must not be closed with KeepAliveTimeout) and a few real-time runs with idle_timeout 60 ms that assert only the lower bound (KeepAliveTimeout no earlier than 60 ms after the driver made the connection idle), including directed schedules in which a timer armed in an earlier idle period is followed by a busy period that outlasts it (keep-alive on / held stream / half-closed held stream) and a second idle period.",
    "note": "An inbound substream offered to the muxer counts as 'still negotiating' only once the connection has picked it up, which the driver cannot observe; the trace spec treats it as 'may be negotiating' (never demands closure, never excuses a closure). Real-time runs check lower bounds only.",
    "design_ref": "6/C10",
}


def run(c):
    c.tlc_mc("KeepAlive", "MCKeepAlive.cfg")
    c.tlc_mc("KeepAlive", "MCKeepAlive0.cfg")
    c.tlc_mc("KeepAlive", "MCKeepAlive_canary.cfg", expect=["NotBeforeTimeout", "NeverClosedWhileBusy"])
    drv = c.build("drv-swarm")
    t = c.rundir / "keepalive.ndjson"
    if c.replay:
        c.drive(drv, ["keepalive", "replay", c.replay, t])
    else:
        c.drive(drv, ["keepalive", "random", c.seed + 61, c.pick(800, 12000), t, "timed=%d" % c.pick(12, 150)], timeout=3000)
    ok, total = c.tlc_trace("TraceKeepAlive", t, timeout=c.pick(600, 3000))
    if not c.replay:
        t2 = c.rundir / "directed.ndjson"
        c.drive(drv, ["keepalive", "directed", t2], timeout=600)
        ok2, total2 = c.tlc_trace("TraceKeepAlive", t2, timeout=600)
        total += total2
    distinct = set()
    cur = None
    for line in open(t):
        ev = json.loads(line)
        if ev["e"] == "reset":
            cur = json.dumps(ev["sched"], sort_keys=True)
            if len(c.samples) < 3:
                c.sample(ev["sched"])
        elif ev["e"] in ("hStream", "cbConnClosed"):
            distinct.add(cur)
    c.evaluations = total
    c.distinct_nontrivial = len(distinct)
    return c.finish("model_checking",
                    rule="seeded random schedules of 3-14 commands (ka on/off, reqOut, offerOut/offerIn substream, negotiate, dropStream, ignoreKA, poll, sleepPoll); distinct schedules; non-trivial = a stream was negotiated or the connection was closed in the run",
                    assumptions=["timed runs use the wall clock for lower bounds only"])
