"""X03 swarm handler combinators: OneShotHandler and ConnectionHandlerSelect (extension component)."""

META = {
    "level": "model_checking",
    "technique": "TLA+ models of OneShotHandler (queue / dial_negotiated / events_out against the connection's ground truth) and of "
                 "ConnectionHandlerSelect (labelling and routing) model-checked with canaries; the REAL handlers are polled by hand, "
                 "the driver plays the connection, every step is validated by TLC against property-level trace specs",
    "text": "OneShotHandler: every request leads to exactly one OutboundSubstreamRequest in FIFO order with the configured timeout, "
            "never more than max_dial_negotiated outstanding, every inbound/outbound result or error is reported exactly once, poll "
            "never stalls while a request could be opened (a failed substream no longer counts as being opened), pending_requests() "
            "is queued + outstanding. ConnectionHandlerSelect: events, substream requests (upgrade, open-info, timeout) and closing "
            "events of each child come out labelled with that child's side exactly once; behaviour events, outbound results/errors and "
            "inbound results/errors reach only the child they belong to with its open-info, AddressChange reaches both; "
            "connection_keep_alive is the OR; listen_protocol is child 1's protocols followed by child 2's with the larger timeout.",
    "note": "Extension component (not in properties.jsonl). Select's children are scripted recording handlers; "
            "Select's preference for child 1 in "
            "poll (possible starvation of child 2) is not a stated property and is accepted.",
    "design_ref": "ext/X03",
}


def _count(c, t, nontrivial):
    import json
    n = 0
    d = set()
    for line in open(t):
        ev = json.loads(line)
        if ev["e"] == "reset":
            n += 1
            key = json.dumps(ev["sched"], sort_keys=True)
            if nontrivial(ev["sched"]):
                d.add(key)
            if len(c.samples) < 4:
                c.sample(ev["sched"])
    return n, d


def run(c):
    # (M)
    c.tlc_mc("OneShot", "MCOneShot.cfg")
    c.tlc_mc("OneShot", "MCOneShot_canary.cfg", expect=["NoStall", "Bounded"])
    c.tlc_mc("HSelect", "MCHSelect.cfg")
    c.tlc_mc("HSelect", "MCHSelect_canary.cfg", expect="RoutedToOwner")
    if not c.quick:
        c.tlc_mc("OneShot", "MCOneShot3.cfg", timeout=900)
        c.tlc_mc("HSelect", "MCHSelect4.cfg", timeout=900)
    # (R)
    drv = c.build("drv-xhandler")
    one, sel = [], []
    if c.replay:
        import json
        first = json.loads(open(c.replay).readline())
        is_one = "max" in first.get("sched", first)
        t = c.rundir / "replay_trace.ndjson"
        c.drive(drv, ["oneshot" if is_one else "select", "replay", c.replay, t])
        (one if is_one else sel).append(t)
    else:
        t = c.rundir / "one.ndjson"
        t2 = c.rundir / "one_rand.ndjson"
        c.drive(drv, ["oneshot", "exhaustive", c.pick(5, 6), t])
        c.drive(drv, ["oneshot", "random", c.seed, c.pick(150, 2000), t2])
        with open(t, "a") as f:
            f.write(open(t2).read())
        one.append(t)
        t = c.rundir / "sel.ndjson"
        t2 = c.rundir / "sel_rand.ndjson"
        c.drive(drv, ["select", "exhaustive", c.pick(2, 3), t])
        c.drive(drv, ["select", "random", c.seed, c.pick(150, 2000), t2])
        with open(t, "a") as f:
            f.write(open(t2).read())
        sel.append(t)
    # (V)
    distinct = set()
    for t in one:
        ok, total = c.tlc_trace("TraceOneShot", t)
        c.evaluations += total
        distinct |= _count(c, t, lambda s: any(o["a"] in ("outok", "outerr") for o in s["ops"]))[1]
    for t in sel:
        ok, total = c.tlc_trace("TraceHSelect", t)
        c.evaluations += total
        distinct |= _count(c, t, lambda s: any(o["a"] in ("outok", "outerr", "inok", "inerr", "beh") for o in s["ops"]))[1]
    c.distinct_nontrivial = len(distinct)
    return c.finish(
        "model_checking",
        rule="oneshot: schedule = (max_dial_negotiated, timeout, ops over send/poll/outok(i)/outerr(i,kind)/inok/inerr/addr/pend); all "
             "sequences up to length N over a 6-letter alphabet for max in 1..2 that end in an observation and contain no impossible "
             "step, plus seeded random schedules of length 5..40 ending in a drain. select: ops over queue-child-event/poll/beh/"
             "outok/outerr/inok/inerr/addr/pchg/ka/listen/qclose/cblock/pollclose; all sequences up to length N over a 27-letter alphabet "
             "(followed by a drain) plus seeded random ones. distinct = distinct schedules that deliver at least one result/event "
             "to the handler",
        assumptions=["the driver plays the connection: results are only delivered for substream requests the handler issued, "
                     "with the label / open-info it attached (as Connection::poll does)",
                     "upgrade outputs are constructed directly (no multistream-select negotiation is run)"],
    )
