"""C02 Connection counters and peer views agree with the event history"""
import importlib.util
import os

_spec = importlib.util.spec_from_file_location("_swarmconn", os.path.join(os.path.dirname(os.path.abspath(__file__)), "_swarmconn.py"))
_m = importlib.util.module_from_spec(_spec)
_spec.loader.exec_module(_m)

META = {
    "level": "model_checking",
    "technique": "TLA+ model of the pool/swarm lifecycle model-checked with TLC (+canary); traces of a real Swarm over a puppet transport validated by TLC against the property-level trace spec TraceSwarmConn (PROP=C02 guards)",
    "text": 'Same model (CountersOK invariant + missing-decrement canary). Conformance: after every driver command a snapshot of network_info counters, connected_peers, is_connected for every peer is recorded; TLC checks each snapshot, every other_established / remaining_established and every num_established carried by SwarmEvents against the counts implied by the callback history so far.',
    "note": 'snapshots are taken between polls (the points where an application can observe the Swarm)',
    "design_ref": "6/C02",
}


def run(c):
    _m.run_conn(c)
    return c.finish(
        "model_checking",
        rule="seeded random command schedules (dial/incoming/envDial/envUpgrade/failMux/close/disconnect/behClose/keepAlive/poll/poll1, 18-30 steps, <=4-6 connections, dial concurrency 1-3, deny probability 0/0.1/0.3) executed on a real Swarm; distinct = distinct schedules; non-trivial = the run contains at least one event the property talks about (an established connection)",
        assumptions=["single-threaded deterministic polling (Config::without_executor) - thread interleavings inside one Swarm are not explored",
                     "PuppetTransport/PuppetMuxer stand in for real transports in the puppet runs; the pair runs use MemoryTransport + plaintext + yamux"],
    )
