"""C29 Connection handlers know whether their peer is in a mesh."""
import os
import sys

sys.path.insert(0, os.path.dirname(os.path.abspath(__file__)))
import gsrouter_lib as g  # noqa: E402

META = {
    "level": "model_checking",
    "technique": "TLA+ single-router model (Gossipsub.tla) with transcribed peer_added_to_mesh / peer_removed_from_mesh and per-connection handler state model-checked for the handler-view invariant (+ canary: per-topic notification); the real Behaviour's NotifyHandler events are fed to the REAL connection Handlers and their connection_keep_alive() is validated by TLC after every step against TraceGossipsub",
    "text": "TLC exhaustively checks the transcribed notification discipline (join, leave, GRAFT, PRUNE, subscription changes, heartbeats that graft and prune the same peer in several topics at once, up to two connections per peer with the first-connection rule) for: the first connection's handler believes 'in mesh' exactly when the peer is in some topic mesh and no other handler does; the canary that notifies once per grafted topic is rejected. Conformance: the real Behaviour is driven through arbitrary event histories; every drained JoinedMesh/LeftMesh is delivered to the real gossipsub Handler of the addressed connection, and after every step TLC checks that some handler of a peer keeps its connection alive iff the peer is a member of at least one mesh (and none does otherwise).",
    "note": "Handlers are the real libp2p_gossipsub::Handler objects returned by handle_established_*_connection; their substreams are never negotiated (keep-alive depends on in_mesh only).",
    "design_ref": "6/C29",
}


def nontrivial(evs):
    return any(e.get("ntf") for e in evs)


def run(c):
    g.model(c, "MCGossipsub_canary_notify.cfg", "HandlerView", two_conns=True)
    traces = g.drive(c, ["mesh"], 500, 4000)
    g.validate(c, "TraceGossipsub_C29.cfg", traces, nontrivial)
    return c.finish(
        "model_checking",
        rule="same schedules as C28 (class mesh: 4 directed incl. the two-topic re-graft by one heartbeat and the first-connection-closes case, + seeded random, length 20..40); distinct = distinct schedules in which at least one JoinedMesh/LeftMesh notification was emitted",
        assumptions=g.ASSUMPTIONS,
    )
