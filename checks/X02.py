"""X02 the in-memory transport (MemoryTransport, process-global port hub) (extension component)."""

META = {
    "level": "model_checking",
    "technique": "TLA+ transcription of HUB / Listener / DialFuture / Chan model-checked (reachability of listeners, no leaked "
                 "ports, exactly-once Incoming / ListenerClosed, two canaries for the code's former deviations); several REAL "
                 "MemoryTransport instances in one process are polled by hand and every step is validated by TLC against a "
                 "property-level trace spec of the hub",
    "text": "listen_on(/memory/0) yields a non-zero unused port, listen_on(/memory/N) succeeds iff N is unused; dial succeeds iff a "
            "listener owns the port at that moment and completes iff that listener still listens, then exactly one Incoming "
            "appears at exactly that listener, after its NewAddress, with local_addr = its address and send_back_addr = a fresh "
            "non-zero dialer port; remove_listener is true iff the transport has that listener, frees the port at once (and only "
            "its own), ListenerClosed follows exactly once after all accepted connections were handed out; dropping a transport / "
            "the dialer's channel frees the ports; poll is Pending only if nothing is due; bytes written on one end arrive in "
            "order exactly once on the other, Pending while the writer lives, EOF after; a write succeeds iff the other end still exists.",
    "note": "Extension component (not in properties.jsonl). One process, one thread: the hub's mutex is not contended. "
            "Back-pressure of the 4096-message channel is not reached.",
    "design_ref": "ext/X02",
}


def run(c):
    import json
    # (M)
    c.tlc_mc("MemHub", "MCMemHub.cfg")
    c.tlc_mc("MemHub", "MCMemHub_canary.cfg", expect="Reachable")
    c.tlc_mc("MemHub", "MCMemHub_canary2.cfg", expect="NoLeak")
    if not c.quick:
        c.tlc_mc("MemHub", "MCMemHub3.cfg", timeout=1500)
    # (R)
    drv = c.build("drv-xmem")
    if c.replay:
        t = c.rundir / "replay_trace.ndjson"
        c.drive(drv, ["replay", c.replay, t])
    else:
        t = c.rundir / "mem.ndjson"
        t2 = c.rundir / "mem_rand.ndjson"
        c.drive(drv, ["exhaustive", c.pick(3, 4), t])
        c.drive(drv, ["random", c.seed, c.pick(150, 2500), t2])
        with open(t, "a") as f:
            f.write(open(t2).read())
    # (V)
    ok, total = c.tlc_trace("TraceMemHub", t, max_rejects=6)
    c.evaluations += total
    distinct = set()
    for line in open(t):
        ev = json.loads(line)
        if ev["e"] == "reset":
            ops = ev["sched"]["ops"]
            if any(o["a"].startswith("dial") for o in ops) or any(o["a"] in ("remove", "dropt") for o in ops):
                distinct.add(json.dumps(ops, sort_keys=True))
            if len(c.samples) < 3:
                c.sample(ev["sched"])
    c.distinct_nontrivial = len(distinct)
    return c.finish(
        "model_checking",
        rule="schedule = ops over listen(t,port|0|port of listener i|ephemeral port of dial i; plain, with /p2p suffix, or with an unsupported suffix)/remove(t,listener)/dial(..)/"
             "dialpoll/dropd/poll(t)/dropt(t)/write/read/close on 3 transport slots; all sequences up to length N over a "
             "13-letter alphabet that contain no impossible step, each followed by a drain (polls) and a final listen on port 1, "
             "plus seeded random schedules of length 6..50 (3 of 4 generated online among the steps that make sense in the "
             "current state) followed by a drain and listens on ports 1..3; "
             "distinct = distinct schedules containing a dial, a remove or a transport drop",
        assumptions=["nothing else in the driver process uses MemoryTransport; each run uses a private block of ports",
                     "single-threaded: operations on the hub are not interleaved at a finer grain than the API calls"],
    )
