"""C12 Listen and external address views equal the fold of their events."""
import json

META = {
    "level": "model_checking",
    "technique": "TLA+ model of the Swarm's listener/external address bookkeeping model-checked (+canary); traces of a real Swarm with puppet listeners and of the real helper structs validated by TLC against reference models in the trace spec",
    "text": "TLC checks the transcribed NewAddress/AddressExpired/ListenerClosed bookkeeping against the fold of the events (2 listeners x 2 addresses) and rejects a push-without-contains canary. Conformance (a): a real Swarm with up to 3 puppet listeners receives seeded sequences of NewAddress, AddressExpired, ListenerClosed (ok / failed), ListenerError, remove_listener, add/remove_external_address and behaviour-emitted ExternalAddrConfirmed/Expired/Candidate; TLC folds the NewListenAddr/ExpiredListenAddr/ListenerClosed SwarmEvents and ExternalAddrConfirmed/Expired callbacks and checks Swarm::listeners() at every quiescent point, external_addresses() after every command, and that ListenerClosed carries exactly the listener's remaining addresses. (b) the public helpers ExternalAddresses (most recent first, capacity 20), ListenAddresses and PeerAddresses (LRU of peers of LRUs of addresses, /p2p normalisation, refusal of addresses naming another peer) are fed constructed FromSwarm events; TLC checks every returned 'changed' flag and the resulting contents against reference models.",
    "note": "PeerAddresses contents are compared as sets (iteration order is not documented); its eviction victim is modelled as least-recently-used (hashlink semantics).",
    "design_ref": "6/C12",
}


def run(c):
    c.tlc_mc("AddrBook", "MCAddrBook.cfg")
    c.tlc_mc("AddrBook", "MCAddrBook_canary.cfg", expect="ListenersView")
    drv = c.build("drv-swarm")
    traces = []
    if c.replay:
        t = c.rundir / "replay_trace.ndjson"
        c.drive(drv, ["addr", "replay", c.replay, t])
        traces = [t]
    else:
        t1 = c.rundir / "helpers.ndjson"
        c.drive(drv, ["addr", "helpers", c.seed + 21, c.pick(500, 8000), t1])
        t2 = c.rundir / "swarm.ndjson"
        c.drive(drv, ["addr", "swarm", c.seed + 22, c.pick(400, 6000), t2])
        traces = [t1, t2]
    distinct = set()
    for t in traces:
        ok, total = c.tlc_trace("TraceAddrBook", t, timeout=c.pick(600, 3000))
        c.evaluations += total
        for line in open(t):
            ev = json.loads(line)
            if ev["e"] == "reset":
                s = ev["sched"]
                if len(s.get("ops", s.get("cmds", []))) >= 5:
                    distinct.add(json.dumps(s, sort_keys=True))
                if len(c.samples) < 2 or (len(c.samples) < 4 and "cmds" in s):
                    c.sample(s)
    c.distinct_nontrivial = len(distinct)
    return c.finish("model_checking",
                    rule="seeded random op sequences: helpers (5-40 ops over confirm/expire/new/expired/add/fail/get, address alphabet 4 or 24, peer capacity 1-3) and swarm (4-25 commands over listenOn/newAddr/expireAddr/closeListener/listenerError/removeListener/add+removeExternal/behaviour address events/poll); distinct schedules; non-trivial = at least 5 operations",
                    assumptions=["PuppetTransport emits the listener events"])
