"""C17 Secure channels deliver exactly the written bytes or fail."""
import json

META = {
    "level": "model_checking",
    "technique": "TLA+ transcription of noise::Output framing/buffering model-checked as a refinement of the ordered pipe-or-fail ByteStream (ideal AEAD, adversarial corruption, canaries); traces of two real noise::Output endpoints over a scripted pipe validated by TLC against the property-level byte-stream trace spec",
    "text": "TLC exhaustively checks the transcribed Output::poll_write/poll_flush/poll_read + length-prefixed AEAD framing (frame limit 2, 4-5 application bytes, every write size, every transport chunking, one corruption at any undecoded frame) for: delivered is an unaltered prefix, frames within the limit, completeness at quiescence, clean EOF only after everything, no corrupted frame ever decoded; step refinement of ByteStream; two canaries (send_offset not reset, tag not checked) are rejected. Real code: two noise::Config upgrades over a scripted pipe, then writes of boundary sizes (0,1,2,100,MAX-1,MAX,MAX+1,2*MAX+3 with MAX=64511), every two-chunk split point of handshake+short exchange, single-bit corruption at every wire position of a 1-3 frame exchange, and seeded random op scripts (partial writes via write budgets, chunked delivery, flush/close/read interleavings); every event is validated by TLC.",
    "note": "Byte comparison with the written pattern is done in the driver (bad = first differing index), all ordering/length/EOF/error obligations in TLA+. Corruption = one flipped bit per direction; a corrupted stream is closed so the reader must terminate.",
    "design_ref": "6/C17",
}


def gather(c, traces, proto_stats=None):
    allp = c.rundir / "all.ndjson"
    distinct = set()
    with open(allp, "w") as out:
        for t in traces:
            for line in open(t):
                out.write(line)
                ev = json.loads(line)
                c.evaluations += 1
                if ev["e"] == "reset":
                    ops = ev["sched"].get("ops", [])
                    if any(o.get("a") in ("w", "wall") and o.get("n", 0) > 0 for o in ops) or ev["sched"].get("trail", 0) > 0:
                        distinct.add(json.dumps(ev["sched"], sort_keys=True))
                        if 3 < len(ops) < 12:
                            c.sample(ev["sched"])
                elif proto_stats is not None and ev["e"] in ("rerr", "eof", "wpend", "flpend", "corrupt"):
                    proto_stats[ev["e"]] = proto_stats.get(ev["e"], 0) + 1
    c.distinct_nontrivial = len(distinct)
    return allp


def run(c):
    c.tlc_mc("ByteStream", "MCByteStream.cfg")
    c.tlc_mc("NoiseChan", "MCNoiseChan.cfg")
    c.tlc_mc("NoiseChan", "MCNoiseChan_canary.cfg", expect=["Prefix", "Complete"])
    c.tlc_mc("NoiseChan", "MCNoiseChan_canary2.cfg", expect=["CorruptDetected", "Prefix"])
    if not c.quick:
        c.tlc_mc("NoiseChan", "MCNoiseChan5.cfg", timeout=1500)
        c.tlc_mc("NoiseChan", "MCNoiseChan7.cfg", timeout=1500)
    drv = c.build("drv-secure")
    if c.replay:
        t = c.rundir / "replay_trace.ndjson"
        c.drive(drv, ["stream", "replay", c.replay, t])
        traces = [t]
    else:
        traces = []
        for name, args in [
            ("splits", ["stream", "splits", "noise", c.pick(5, 1)]),
            ("boundary", ["stream", "boundary", "noise"]),
            # data written by the initiator right after ITS handshake completes, arriving together with (or split
            # anywhere across) the last handshake message - added after seeded mutant C17-1 was missed
            ("early", ["stream", "early", "noise"]),
            ("corrupt", ["stream", "corrupt", "noise", c.pick(2, 3)]),
            ("random", ["stream", "random", "noise", c.seed, c.pick(150, 3000)]),
        ]:
            t = c.rundir / (name + ".ndjson")
            c.drive(drv, args + [t])
            traces.append(t)
    stats = {}
    allp = gather(c, traces, stats)
    c.tlc_trace("TraceByteStream", allp, timeout=1500)
    return c.finish(
        "model_checking",
        rule="schedule = op script over w/wall/fl/cl/r/dl/wb/corrupt/drain for two real noise endpoints; exhaustive families: all two-chunk split points (step 5 quick / 1 thorough) of handshake + 3-write exchange per direction, 8x8 boundary write sizes x 2 delivery chunkings, one flipped bit at every wire offset of a 2-3 frame exchange per direction; plus seeded random scripts (length 5..40, 25% with a corruption); distinct = distinct schedules that write at least one byte; evaluations = trace events",
        assumptions=["content comparison against the position-determined pattern is done by the driver",
                     "cryptographic strength of ChaCha20-Poly1305 is not what is checked; the check is that every tampering the AEAD reports surfaces as a read error and nothing is delivered from it"],
        extra={"event_counts": stats},
    )
