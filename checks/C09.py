"""C09 Smart-dial ranking is a complete, well-ordered permutation."""
import json

META = {
    "level": "exploration",
    "technique": "TLA+ relation RelDialRank (permutation, documented group order, last group last by delay, QUIC no later than TCP per group) evaluated by TLC on every output of the real rank_dials over an exhaustively enumerated abstract alphabet of address shapes",
    "text": "Alphabet of 20 address shapes (private/public/loopback IPv4, private/public IPv6, localhost and non-localhost DNS names, x QUIC-v1/QUIC/TCP/WebRTC-direct/no transport, relay circuits); every sequence of length <= 2 and every multiset (both orders) of size 3 (thorough: 4) is concretised with unique ports, ranked by the real function through the verif hook, and TLC evaluates the relation on each (input, output) record. In addition every multiset (both orders) of size 5-6 (thorough: 7) over a reduced 9-shape alphabet (public QUIC/TCP v4/v6, public WebRTC-direct, private TCP, relayed TCP/QUIC, DNS-only) is ranked: long public schedules in front of relay and no-IP addresses. The group of a shape is assigned from the documented rules, not from the code.",
    "note": "Addresses with neither IP nor DNS component (e.g. /memory/1) are outside the alphabet; delays are compared only where the statement speaks about them.",
    "design_ref": "6/C09",
}


def run(c):
    drv = c.build("drv-swarmfn")
    recs = c.rundir / "rank.ndjson"
    c.drive(drv, ["rank", c.pick(3, 4), recs, "deep=%d" % c.pick(6, 7)], timeout=3000)
    n, bad = c.tlc_relation("RelDialRank", recs, timeout=3000)
    nt = 0
    for line in open(recs):
        r = json.loads(line)
        if len({x[1] for x in r["in"]}) > 1 or len({x[2] for x in r["in"]}) > 1:
            nt += 1
            if len(r["in"]) == 3:
                c.sample(r)
    c.evaluations = n
    c.distinct_nontrivial = nt
    return c.finish("exploration", exhaustive=True,
                    rule="all sequences of length 1-2 and all multisets (in both orders) of size 3 (4 thorough) over 20 abstract address shapes, plus all multisets of size 5-6 (7 thorough) over 9 shapes; records distinct by construction; non-trivial = the input mixes at least two groups or two transports",
                    assumptions=["abstract alphabet of address shapes; one representative IP per class"])
