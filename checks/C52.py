"""C52 Connection limits are never exceeded."""
import json

META = {
    "level": "model_checking",
    "technique": "TLA+ model of connection-limits' sets and check_limit guards model-checked (+ off-by-one canary); traces of a real Swarm running #[derive(NetworkBehaviour)]{connection_limits::Behaviour, probe} validated by TLC against the limit invariants",
    "text": "TLC explores all interleavings of pending/established/failed/closed connections (4 ids, 2 peers, one bypassed, limits 1-2) for the six limits and rejects a `>`-instead-of-`>=` canary. Conformance: a real Swarm over the puppet transport with the real connection_limits::Behaviour composed by the derive macro; seeded random limits (each of the six limits absent or 1-2, optional bypassed peer) and 40-step schedules of dials, inbound connections, authentications, failures, closes and partial polls with up to 12 connections; after every command TLC checks the Swarm's counters and the per-peer / per-direction counts rebuilt from the callbacks against every configured limit, ignoring bypassed peers.",
    "note": "Pending inbound connections have no peer id and therefore always count; a pending dial counts unless its expected peer is bypassed.",
    "design_ref": "6/C52",
}


def run(c):
    c.tlc_mc("ConnLimits", "MCConnLimits.cfg")
    c.tlc_mc("ConnLimits", "MCConnLimits_canary.cfg", expect="LimitsHold")
    drv = c.build("drv-swarm")
    t = c.rundir / "limits.ndjson"
    if c.replay:
        c.drive(drv, ["guard", "replay", c.replay, t])
    else:
        c.drive(drv, ["guard", "limits", c.seed + 31, c.pick(300, 4000), t, "steps=50"])
    ok, total = c.tlc_trace("TraceGuards", t, timeout=c.pick(600, 3000))
    distinct = set()
    cur, denied = None, False
    for line in open(t):
        ev = json.loads(line)
        if ev["e"] == "reset":
            cur = json.dumps(ev["sched"], sort_keys=True)
            if len(c.samples) < 2:
                c.sample({"cfg": ev["sched"]["cfg"], "cmds": ev["sched"]["cmds"][:10]})
        elif ev["e"] in ("cbDialFailure", "cbListenFailure") and ev.get("kind") == "Denied":
            distinct.add(cur)
            if len(c.samples) < 4:
                c.sample(ev)
    c.evaluations = total
    c.distinct_nontrivial = len(distinct)
    return c.finish("model_checking",
                    rule="seeded random (limits config, 40-command schedule); distinct schedules; non-trivial = at least one connection was denied by the limits behaviour in the run",
                    assumptions=["single Swarm, deterministic polling"])
