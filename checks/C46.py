"""C46 Identify only reports authenticated peer information."""
import json

META = {
    "level": "model_checking",
    "technique": "TLA+ model of what identify keeps/reports per connection (message grid kind x key x record signer x address owners, push merge) model-checked for the three clauses of the statement (+ three canaries); traces of the real identify Behaviour and Handler fed hand-encoded wire messages of a lying remote validated by TLC against the property-level provenance spec",
    "text": "TLC exhaustively checks the transcribed parsing/merge/filter logic over all messages (identify or push, key A/B/absent, record absent / signed by A / signed by B / tampered, every subset of plain and record addresses owned by nobody/A/B) for: reported key derives the connection's peer, record addresses only from a record validly signed by that peer, no address naming another peer; three canaries (no key check, any signer, no /p2p filter) are rejected. The real Behaviour + Handler receive real protobuf frames on negotiated in-memory streams (identify responses and pushes) over the full grid kind x key(A,B,none,garbage) x record(none, A, B, tampered, junk) in four contexts plus seeded random message sequences; each address is uniquely tagged so TLC can check the origin of every address in Event::Received and NewExternalAddrOfPeer.",
    "note": "One connection per run; Ed25519 identities; the Swarm and the remote are played by the driver.",
    "design_ref": "6/C46",
}


def run(c):
    c.tlc_mc("Identify", "MCIdentify.cfg")
    c.tlc_mc("Identify", "MCIdentify_canary.cfg", expect=["OnlyAuthenticatedKey"])
    c.tlc_mc("Identify", "MCIdentify_canary2.cfg", expect=["RecordOnlyIfSignedBySamePeer"])
    c.tlc_mc("Identify", "MCIdentify_canary3.cfg", expect=["NoForeignPeerAddr"])
    drv = c.build("drv-identify")
    if c.replay:
        t = c.rundir / "replay_trace.ndjson"
        c.drive(drv, ["auth", "replay", c.replay, t])
        traces = [t]
    else:
        t1 = c.rundir / "grid.ndjson"
        c.drive(drv, ["auth", "grid", t1])
        t2 = c.rundir / "rand.ndjson"
        c.drive(drv, ["auth", "random", c.seed, c.pick(600, 12000), t2])
        traces = [t1, t2]
    distinct = set()
    for t in traces:
        ok, total = c.tlc_trace("TraceIdentify", t, timeout=1500)
        c.evaluations += total
        cur, lying, rec = None, False, False
        for line in open(t):
            ev = json.loads(line)
            if ev["e"] == "reset":
                if cur is not None and lying and rec:
                    distinct.add(cur)
                cur, lying, rec = json.dumps(ev["sched"], sort_keys=True), False, False
                if len(c.samples) < 2 and len(ev["sched"]["ops"]) > 1:
                    c.sample(ev["sched"])
            elif ev["e"] == "msg" and (ev["key"] != "A" or ev["rec"] in ("B", "tampered", "junk")):
                lying = True
            elif ev["e"] == "received":
                rec = True
        if cur is not None and lying and rec:
            distinct.add(cur)
    c.distinct_nontrivial = len(distinct)
    return c.finish(
        "model_checking",
        rule="run = sequence of 1..5 wire messages on one connection, each (identify|push, key A/B/none/garbage, record none/A/B/tampered/junk, plain and record address lists with /p2p suffix none/self/other/relay-via-other/relayed-other); grid: all 40 single messages in 4 contexts; random: seeded; distinct = distinct runs containing a lying message and at least one Received event",
        assumptions=["Ed25519 keys only", "the remote is scripted at the byte level; multistream negotiation of the identify protocols is real, yamux/noise are not involved"],
    )
