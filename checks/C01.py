"""C01 Connection lifecycle events are paired and exactly-once"""
import importlib.util
import os

_spec = importlib.util.spec_from_file_location("_swarmconn", os.path.join(os.path.dirname(os.path.abspath(__file__)), "_swarmconn.py"))
_m = importlib.util.module_from_spec(_spec)
_spec.loader.exec_module(_m)

META = {
    "level": "model_checking",
    "technique": "TLA+ model of the pool/swarm lifecycle model-checked with TLC (+canary); traces of a real Swarm over a puppet transport validated by TLC against the property-level trace spec TraceSwarmConn (PROP=C01 guards)",
    "text": 'TLC exhaustively explores the transcribed pool/swarm lifecycle model (dial with its synchronous failure exits, incoming, pending tasks, peer-id check, behaviour decisions, close/disconnect/error paths; 2 connection ids quick, 3 thorough = 1.8 M states) for exactly-one-terminal, closed-once-after-established and same-view invariants, and rejects a duplicate-close canary. Conformance: a real Swarm over a puppet transport, polled deterministically, is driven through seeded schedules that pile up in-flight dials, inbound upgrades, authentications, muxer failures, closes and disconnects between polls; every FromSwarm callback, API result and SwarmEvent is recorded and TLC validates each run against the property-level trace spec (one terminal event per id in both views, Closed once and only after Established, SwarmEvent lifecycle order = FromSwarm order, every handed-out id resolved at quiescence).',
    "note": 'ids whose transport future never completes are resolved by the driver at the end of a run (failed) before the at-quiescence clause is evaluated; puppet runs use one Swarm; the real-pair runs (2-3 Swarms over memory transport) are validated per Swarm',
    "design_ref": "6/C01",
}


def run(c):
    _m.run_conn(c)
    return c.finish(
        "model_checking",
        rule="seeded random command schedules (dial/incoming/envDial/envUpgrade/failMux/close/disconnect/behClose/keepAlive/poll/poll1, 18-30 steps, <=4-6 connections, dial concurrency 1-3, deny probability 0/0.1/0.3) executed on a real Swarm; distinct = distinct schedules; non-trivial = the run contains at least one event the property talks about (terminal/closed callbacks)",
        assumptions=["single-threaded deterministic polling (Config::without_executor) - thread interleavings inside one Swarm are not explored",
                     "PuppetTransport/PuppetMuxer stand in for real transports in the puppet runs; the pair runs use MemoryTransport + plaintext + yamux"],
    )
