"""C04 Dial preconditions and address selection are honoured."""
import json

META = {
    "level": "exploration",
    "technique": "TLA+ relation RelDialPlan (ShouldDial / Attempted) evaluated by TLC on every record of a real Swarm::dial call over an exhaustively enumerated grid of peer state x condition x address lists",
    "text": "Exhaustive grid: 4 PeerConditions x connected? x dialing? (a plain pending dial, one with role override, or one that was just aborted by disconnect_peer_id and not polled yet) x explicit address lists (length <= 2 quick / 3 thorough over {a1, a2, own listen address}, duplicates included) x behaviour-supplied lists (<= 2 over {a2, a3, listen}) x extend flag, plus dials without peer id. For each point a fresh real Swarm over the puppet transport is brought into that state, Swarm::dial is called once, and TLC evaluates the relation on the recorded result, transport dials (address + /p2p suffix), DialFailure callbacks and pending counter.",
    "note": "Abstract alphabet of three addresses per source; 'connected'/'dialing' realised with one established / one pending connection to the peer.",
    "design_ref": "6/C04",
}


def run(c):
    drv = c.build("drv-swarm")
    recs = c.rundir / "dialplan.ndjson"
    c.drive(drv, ["dialplan", c.pick(2, 3), recs], timeout=3000)
    n, bad = c.tlc_relation("RelDialPlan", recs, timeout=1500)
    nt = set()
    for line in open(recs):
        r = json.loads(line)
        cand = r["opts"] + (r["beh"] if r["extend"] else [])
        if r["res"] != "ok" or len(set(cand)) != len(cand) or 100 in cand:
            nt.add(line)
            if r["res"] == "ok" and len(c.samples) < 3:
                c.sample(r)
    c.evaluations = n
    c.distinct_nontrivial = len(nt)
    return c.finish(
        "exploration", exhaustive=True,
        rule="one record per grid point (condition, connected, dialing, explicit list, behaviour list, extend); all points distinct; non-trivial = the dial is rejected, or the candidate list contains duplicates or the Swarm's own listen address (filtering must happen)",
        assumptions=["PuppetTransport records Transport::dial calls; peer state built with PeerCondition::Always dials"],
    )
