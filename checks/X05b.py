"""X05b AutoNAT v2 client: an address is confirmed only after a dial-back with the right nonce and an OK response."""
import json

META = {
    "level": "model_checking",
    "technique": "TLA+ model of a candidate's test status in the v2 client (probe generations = nonces, dial-backs with current / stale / foreign nonces, server verdicts) model-checked with a canary; traces of the REAL v2 client Behaviour with its REAL dial_request / dial_back handlers and wire codec (driver plays the Swarm and the servers with crafted protobuf frames on in-memory streams, the probe timer replaced by the verif_tick hook) validated by TLC against a property-level spec",
    "text": "AutoNAT v2 client (extension component X05b): C1 ExternalAddrConfirmed(a) only after a DialBack carrying the nonce of the request for a was acknowledged AND the server answered that request OK/OK for a, exactly once, with Event Ok; C2 a DialBack is acknowledged only if its nonce is that of a probe in progress and was not received before, and then at once; C3 data is sent only for a demand naming an address of the request and 30000..100000 bytes: exactly that many, at most 4096 per message; C4 a probe only for a reported, untested candidate, only to an outbound connection whose peer announced the dial-request protocol, one address and a fresh nonce per request, at most max_candidates per round, more often reported candidates first; C5 Event Err exactly for E_DIAL_ERROR / E_DIAL_BACK_ERROR answers, bytes_sent and server faithful.",
    "note": "Deviations named in Autonat2Client.tla: an OK response without a dial-back, or a connection closing mid-probe, leaves the candidate pending for good (no event, no retry). The dial-back may arrive on any inbound connection (the nonce is the only authentication, as in the protocol text). Timeouts (10 s request, 5 s dial-back) are not exercised; the probe timer is replaced by the hook.",
    "design_ref": "ext/X05b",
}


def run(c):
    c.tlc_mc("Autonat2Client", "MCAutonat2Client.cfg" if c.quick else "MCAutonat2Client_big.cfg")
    c.tlc_mc("Autonat2Client", "MCAutonat2Client_canary.cfg", expect=["ConfirmOnlyProven"])
    drv = c.build("drv-xautonat2")
    if c.replay:
        t = c.rundir / "replay.ndjson"
        c.drive(drv, ["client", "replay", c.replay, t])
        c.tlc_trace("TraceAutonat2Client", t)
        return c.finish("model_checking", rule="replay")
    t3 = c.rundir / "client_exhaustive.ndjson"
    c.drive(drv, ["client", "exhaustive", c.pick(2, 3), t3])
    t4 = c.rundir / "client_random.ndjson"
    c.drive(drv, ["client", "random", c.seed, c.pick(300, 8000), t4])
    allc = c.rundir / "client_all.ndjson"
    allc.write_text(t3.read_text() + t4.read_text())
    k = {"runs": 0, "requests": 0, "confirmed": 0, "dialbacks_acknowledged": 0, "dialbacks_refused": 0, "unreachable_events": 0, "data_transfers": 0}
    nontrivial = set()
    cur = None
    backs = 0
    for line in open(allc):
        r = json.loads(line)
        e = r["e"]
        if e == "reset":
            k["runs"] += 1
            cur = json.dumps(r["sched"], sort_keys=True)
            if len(c.samples) < 2 and 8 < len(r["sched"]["ops"]) < 14:
                c.sample(r["sched"])
        elif e == "tx_req":
            k["requests"] += 1
            nontrivial.add(cur)
        elif e == "confirmed":
            k["confirmed"] += 1
        elif e == "back_in":
            backs += 1
        elif e == "back_ack":
            k["dialbacks_acknowledged"] += 1
        elif e == "tx_data":
            k["data_transfers"] += 1
        elif e == "event" and not r["ok"]:
            k["unreachable_events"] += 1
    k["dialbacks_refused"] = backs - k["dialbacks_acknowledged"]
    c.extra_cov["client"] = k
    c.tlc_trace("TraceAutonat2Client", allc, timeout=3000)
    c.evaluations = c.traces_ok
    c.distinct_nontrivial = len(nontrivial)
    return c.finish(
        "model_checking",
        rule="schedule = candidates reported, outbound connections (with / without protocol support) and inbound connections, probing rounds, substream results, server messages (data demands valid / out of bounds / wrong index, responses with every status combination, junk, EOF), DialBacks with the nonce of any request or a foreign nonce, connections closing; exhaustive: all op sequences of length N over 13 ops after a probe is on the wire; random: directed probes and undirected op sequences; non-trivial = a request went out",
        assumptions=["the driver plays the Swarm and the servers", "probe timer replaced by the verif_tick hook; request / dial-back timeouts not exercised"],
    )
