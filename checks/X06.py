"""X06 Kademlia record store and its users: bounds, expiry, filtering and replies of a serving Behaviour<MemoryStore>."""
import json

META = {
    "level": "model_checking",
    "technique": "TLA+ model of MemoryStore behind the Behaviour's inbound PUT_VALUE / GET_VALUE / ADD_PROVIDER / GET_PROVIDERS handling with an abstract clock, model-checked for the store bounds, provided-in-sync, never-serve-expired, stored-only-unfiltered, ttl-never-extended, one-reply and legit-provider (five canaries); a REAL kad::Behaviour<MemoryStore> fed with the handler events of inbound requests and local store operations, its store projected after every op, every step validated by TLC against the property-level trace specification",
    "text": "specs/KadServe.tla (2-3 keys, 2 peers + local node, limits 1-2, record_ttl 0/2 and provider ttl 1 clock units, replication factor 1, 0-3 nodes between, clock 0..3): invariants Bounds, ProvidedSync, NeverServeExpired, StoredOnlyUnfiltered, TtlNeverExtended, OneReply, LegitProvider with and without FilterBoth; canaries: GET without expiry test, FilterBoth still stores, larger expiry prevails, ADD_PROVIDER from a third party, refusal answered twice. harness/drv-xkadstore serve: Behaviour::with_config over MemoryStore::with_config (max_records / max_value_bytes / max_providers_per_key / max_provided_keys 1-3, record_ttl and provider_record_ttl none or 1 s .. 10 h, Unfiltered / FilterBoth, replication factor 1-3, 0-8 routing-table peers); ops: HandlerEvent::PutRecord (any publisher incl. local, received expiry none / past / future, sizes around max_value_bytes), GetRecord, AddProvider (announced provider = or != sender, incl. local), GetProvidersReq, and local store_mut() put / remove / add_provider (own and foreign, incl. already expired ones standing for elapsed time) / remove_provider. After each op: drained InboundRequest events, the NotifyHandler replies (peer, connection and request id compared) and records(), providers(k) for every key, provided(). specs/TraceKadServe.tla follows the projection and requires of every step the outcome the documentation promises, with the stored expiry = min(received, now + ttl >> max(0, between - k)) bounded by instants measured around the call; `between` is recomputed by the driver from the SHA-256 key bytes as kbucket.rs documents it.",
    "note": "No clock control: expired entries are planted with expiries seconds in the past; an expiry within [t0, t1] of its op may be judged either way. Named deviations: a full provider list ignores a new provider (first come, not closest) and still reports success; max_provided_keys counts keys with any provider. Requests enter at on_connection_handler_event (the handler/codec in front are C42-C44's subject); background jobs (republish / expiry sweep) are not run.",
}


def run(c):
    c.tlc_mc("KadServe", "MCKadServe.cfg")
    c.tlc_mc("KadServe", "MCKadServe_filter.cfg")
    c.tlc_mc("KadServe", "MCKadServe_canary_expired.cfg", expect="NeverServeExpired")
    c.tlc_mc("KadServe", "MCKadServe_canary_merge.cfg", expect="TtlNeverExtended")
    if not c.quick:
        c.tlc_mc("KadServe", "MCKadServe_nottl.cfg")
        c.tlc_mc("KadServe", "MCKadServe_canary_filter.cfg", expect="StoredOnlyUnfiltered")
        c.tlc_mc("KadServe", "MCKadServe_canary_source.cfg", expect="LegitProvider")
        c.tlc_mc("KadServe", "MCKadServe_canary_reply.cfg", expect="OneReply")
        c.tlc_mc("KadServe", "MCKadServe_big.cfg", timeout=1500)
    drv = c.build("drv-xkadstore")
    if c.replay:
        t = c.rundir / "replay_trace.ndjson"
        c.drive(drv, ["serve", "replay", c.replay, t])
        traces = [t]
    else:
        t1 = c.rundir / "exh.ndjson"
        c.drive(drv, ["serve", "exhaustive", c.pick(2, 3), t1])
        t2 = c.rundir / "rand.ndjson"
        c.drive(drv, ["serve", "random", c.seed, c.pick(200, 4000), t2])
        traces = [t1, t2]
    distinct = set()
    for t in traces:
        ok, total = c.tlc_trace("TraceKadServe", t, timeout=2400)
        c.evaluations += total
        for line in open(t):
            ev = json.loads(line)
            if ev["e"] == "reset":
                ops = ev["sched"]["ops"]
                if any(o["a"] in ("put", "addp") for o in ops) and any(o["a"] in ("get", "getp") for o in ops):
                    distinct.add(json.dumps(ev["sched"], sort_keys=True))
                    if len(c.samples) < 3 and len(ops) <= 6:
                        c.sample(ev["sched"])
    c.distinct_nontrivial = len(distinct)
    return c.finish(
        "model_checking",
        rule="schedule = (store limits, record/provider ttl, filtering, replication factor, routing-table peers, op sequence over put/get/addp/getp/lput/lrem/laddp/lremp); exhaustive for length<=N over an 18-letter alphabet with every limit 1 under 3 configurations, plus seeded random schedules of 4-40 ops; distinct = distinct schedules with an inbound store request and an inbound read",
        assumptions=["instants in ms relative to the run start; an op's `now` lies between the instants measured around it",
                     "requests enter at NetworkBehaviour::on_connection_handler_event; periodic jobs never run"],
    )
