"""C40 XOR distance behaves as a metric with consistent bucket indices."""
import json

META = {
    "level": "exploration",
    "technique": "metric laws model-checked by TLC on 5-bit keys (two canaries); the real KeyBytes/KBucketKey distance, for_distance, ilog2 and the table's bucket placement evaluated on all triples of b-bit keys under four embeddings into 256-bit keys and compared by TLC with the expected values; random and edge 256-bit keys checked for the relational laws",
    "text": "TLC proves identity, symmetry, triangle inequality, unidirectionality, for_distance inverse and 'bucket index = highest set bit' for all 32^3 triples of 5-bit keys in the TLA+ model and rejects two canaries (for_distance with +, ilog2 off by one). The real API is evaluated on every triple of 3-bit (thorough: 4-bit) keys embedded at bit positions 0.., 100.., 256-b.. and at random scattered positions (XOR-masked with a random 256-bit constant); distances, for_distance results, ilog2, the bucket in which the key lands in a real KBucketsTable and the bucket (with its distance range) KBucketsTable::bucket returns for it - none for the local key - are mapped back to the abstract domain and TLC compares them with its own XOR / highest-bit computation. Seeded random and edge-case 256-bit keys (0, all-ones, single bits, 2^k-1, high masks, equal keys) are checked for the laws with 256-bit arithmetic in the driver. Full-width arithmetic is sampled, not proved.",
    "note": "A pure function over a 2^256 domain: the abstract case analysis (which bit is the highest differing one, carries in the triangle inequality) is covered exhaustively at small width under several embeddings; the wide part is sampling.",
    "design_ref": "6/C40",
}


def run(c):
    c.tlc_mc("KadMetric", "MCKadMetric.cfg")
    c.tlc_mc("KadMetric", "MCKadMetric_canary.cfg", expect="ForDistanceInverse")
    c.tlc_mc("KadMetric", "MCKadMetric_canary2.cfg", expect="HighestBit")
    drv = c.build("drv-kad")
    recs = c.rundir / "metric.ndjson"
    if c.replay:
        c.drive(drv, ["kbucket", "metric-replay", c.replay, recs])
    else:
        c.drive(drv, ["kbucket", "metric", c.pick(3, 4), c.seed, c.pick(1500, 20000), recs])
    n, bad = c.tlc_relation("RelKadMetric", recs, timeout=2400)
    c.evaluations = n
    nt = 0
    for line in open(recs):
        r = json.loads(line)
        if r.get("wide"):
            if not r.get("eq"):
                nt += 1
        elif len({r["a"], r["b"], r["c"]}) == 3:
            nt += 1
            if len(c.samples) < 3 and r["a"] > 0:
                c.sample({k: r[k] for k in ("a", "b", "c", "dab", "dac", "dbc", "il", "bidx", "pos")})
    c.distinct_nontrivial = nt
    return c.finish(
        "exploration",
        rule="record = (a, b, c) over all triples of b-bit keys (b=3 quick, 4 thorough) x 4 embeddings (bit positions 0.., 100.., 256-b.., seeded random scatter; XOR mask), plus seeded random / edge 256-bit triples; non-trivial = three distinct keys (embedded) or two distinct keys (wide)",
        assumptions=["embedded keys: abstract bit j at real bit pos[j]; XOR order and highest differing bit are preserved by construction, other bits must come back as zero (checked)",
                     "wide records: the laws are evaluated by the driver with the uint crate's U256 arithmetic"],
    )
