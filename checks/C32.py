"""C32 Gossipsub backoff is never shortened."""
import json
import os
import sys

sys.path.insert(0, os.path.dirname(os.path.abspath(__file__)))
import gsrouter_lib as g  # noqa: E402

META = {
    "level": "model_checking",
    "technique": "TLA+ transcription of BackoffStorage (slot ring + expiry instants, GsBackoff.tla) model-checked for NeverShortened and eventual forgetting (+ 2 canaries); the real BackoffStorage under the verif clock and the real Behaviour (GRAFT/PRUNE histories, logical time) validated by TLC against property-level trace specs",
    "text": "TLC exhaustively checks the transcribed ring-of-heartbeat-slots storage (durations longer than the ring, heartbeats at arbitrary times, bounded time) for: from an update at u with duration d until u+d the pair is backed off and its backoff time is in the future; an entry expired past the slack is eventually evicted (liveness under fair heartbeats); canaries (eviction without the instant test; unconditional overwrite) are rejected. Conformance: (1) the real BackoffStorage, clock controlled by the verif shim in backoff.rs, under all update/heartbeat/tick sequences up to length 4-6 over a 5-letter alphabet plus seeded random schedules over 1-2 topics x 1-2 peers with durations up to twice the ring; TLC checks NeverShortened and bounded forgetting on every step. (2) the real Behaviour under GRAFT/PRUNE/subscribe/heartbeat/tick histories: whoever was sent or has sent a PRUNE with a duration is reported as backed off, is not added to the mesh until the duration has elapsed, and a GRAFT it sends meanwhile (for a topic it could otherwise be grafted into) lowers its score.",
    "note": "Forgetting is checked with the bound 2*ring heartbeats after expiry+slack (any faster implementation passes). The GRAFT penalty is observed as a strict decrease of Behaviour::peer_score.",
    "design_ref": "6/C32",
}


def run(c):
    c.tlc_mc("GsBackoff", "MCGsBackoff.cfg", timeout=300)
    c.tlc_mc("GsBackoff", "MCGsBackoff_canary.cfg", expect="NeverShortened", timeout=300)
    c.tlc_mc("GsBackoff", "MCGsBackoff_canary2.cfg", expect="NeverShortened", timeout=300)
    if not c.quick:
        c.tlc_mc("GsBackoff", "MCGsBackoff_big.cfg", timeout=900)
    drv = c.build("drv-gossipsub")
    if c.replay:
        first = json.loads(open(c.replay).readline())
        router = "cfg" in first.get("sched", first) and "lo" in first.get("sched", first)["cfg"]
        t = c.rundir / "replay_trace.ndjson"
        c.drive(drv, ["router" if router else "backoff", "replay", c.replay, t])
        storage, routers = ([], [t]) if router else ([t], [])
    else:
        t1 = c.rundir / "backoff_exh.ndjson"
        c.drive(drv, ["backoff", "exhaustive", c.pick(4, 6), t1])
        t2 = c.rundir / "backoff_rand.ndjson"
        c.drive(drv, ["backoff", "random", c.seed, c.pick(400, 3000), t2])
        storage = [t1, t2]
        t3 = c.rundir / "router_backoff.ndjson"
        c.drive(drv, ["router", "random", "backoff", c.seed * 1000 + 7, c.pick(300, 2500), 40, t3])
        routers = [t3]
    distinct = set()
    for t in storage:
        ok, total = c.tlc_trace("TraceGsBackoff", t, timeout=1200)
        c.evaluations += total
        for line in open(t):
            ev = json.loads(line)
            if ev["e"] == "reset":
                ops = ev["sched"]["ops"]
                if any(o["a"] == "upd" for o in ops) and any(o["a"] != "upd" for o in ops):
                    distinct.add(json.dumps(ev["sched"], sort_keys=True))
                    if len(c.samples) < 2:
                        c.sample({"cfg": ev["sched"]["cfg"], "ops": ops[:10]})
    n_storage = len(distinct)
    g.validate(c, "TraceGossipsub_C32.cfg", routers, lambda evs: any(e.get("pr") or e.get("prune") for e in evs))
    c.distinct_nontrivial += n_storage
    return c.finish(
        "model_checking",
        rule="storage schedules: all sequences of length N over {update 1, update prune_backoff, update 2*ring+1, heartbeat, tick} for two configurations + seeded random schedules (15..60 ops, prune_backoff 1..6, slack 0..2, interval 1..3 ticks, durations up to 2*ring+2); router schedules: class backoff (random GRAFT/PRUNE/subscription/heartbeat/tick histories). distinct = storage schedules with an update followed or preceded by another kind of op + router schedules in which a PRUNE was sent or received",
        assumptions=g.ASSUMPTIONS + ["1 tick = 1000 s for the storage runs (real time inside a run is far below a tick)"],
    )
