"""C51 Rendezvous registrations obey TTL, limits and refresh semantics."""
import json

META = {
    "level": "model_checking",
    "technique": "TLA+ model of server::Registrations (add/remove/get/expiry timers) model-checked for the limits, refresh, no-orphan and discovery invariants (+ canary transcribing the pre-repair admission test); traces of the real Registrations, driven through the real request dispatcher and wire codec with emulated expiry timers, validated by TLC against the property-level reference model",
    "text": "TLC exhaustively checks the transcribed registration table (2-3 peers, 2 namespaces, up to 5-6 registration ids, limits 1/2, 2/2, 2/3) for per-peer and total limits, refresh-always-allowed, no lingering superseded entry, no spurious expiry and discovery-only-current, and rejects the canary that uses the pre-repair admission test. The real server::Registrations is then driven through handle_request with every request/response (including cookies) passing the real protobuf wire codec, expiry forced through the real poll path on a logical clock; every register/unregister/discover/expiry result of all op sequences of length 3 (4 thorough) over a 13-letter alphabet plus seeded random histories is validated by TLC against the reference model rebuilt from the events.",
    "note": "Expiry timers are emulated (the driver fires, via a hook, the timer of each registration id when its TTL has elapsed on a logical clock); the cookie cache is kept large enough that no cookie is evicted.",
    "design_ref": "6/C51",
}


def run(c):
    c.tlc_mc("Rendezvous", "MCRendezvous.cfg")
    c.tlc_mc("Rendezvous", "MCRendezvous22.cfg")
    c.tlc_mc("Rendezvous", "MCRendezvous_canary.cfg",
             expect=["RefreshAlwaysAllowed", "TotalLimit", "NoOrphans", "NoSpuriousExpiry"])
    c.tlc_mc("Rendezvous", "MCRendezvous_canary2.cfg", expect=["TotalLimit", "NoOrphans", "NoSpuriousExpiry"])
    if not c.quick:
        c.tlc_mc("Rendezvous", "MCRendezvous3.cfg", timeout=900)
    drv = c.build("drv-rendezvous")
    if c.replay:
        t = c.rundir / "replay_trace.ndjson"
        c.drive(drv, ["regs", "replay", c.replay, t])
        traces = [t]
    else:
        t1 = c.rundir / "exh.ndjson"
        c.drive(drv, ["regs", "exhaustive", c.pick(3, 4), t1])
        t2 = c.rundir / "rand.ndjson"
        c.drive(drv, ["regs", "random", c.seed, c.pick(300, 6000), t2])
        traces = [t1, t2]
    distinct = set()
    for t in traces:
        ok, total = c.tlc_trace("TraceRendezvous", t, timeout=1500)
        c.evaluations += total
        cur = None
        nontrivial = False
        for line in open(t):
            ev = json.loads(line)
            if ev["e"] == "reset":
                if cur is not None and nontrivial:
                    distinct.add(cur)
                cur = json.dumps(ev["sched"], sort_keys=True)
                nontrivial = False
                if len(c.samples) < 3 and len(ev["sched"]["ops"]) > 3:
                    c.sample(ev["sched"])
            elif ev["e"] == "reg" and ev["res"] == "ok":
                nontrivial = True
        if cur is not None and nontrivial:
            distinct.add(cur)
    c.distinct_nontrivial = len(distinct)
    return c.finish(
        "model_checking",
        rule="schedule = (min/max ttl, per-peer limit, total limit, op sequence over register(peer,ns,ttl)/unregister/discover(ns,cookie,limit)/tick); exhaustive for length N over a 13-letter alphabet with limits (1,2) and (2,2), plus seeded random histories of length 6..30 over 3 peers x 3 namespaces and 6 limit pairs; distinct = distinct schedules with at least one accepted registration",
        assumptions=["expiry timers emulated on a logical clock: the timer of every registration id fires (through the real poll path) once its ttl has elapsed",
                     "cookie cache never evicts (default max_cookies)"],
    )
