"""C03 Connection ids are never reused."""
import json

META = {
    "level": "model_checking",
    "technique": "TLA+ model of the process-wide id counter model-checked over all thread interleavings (atomic step vs. load/store canary); ids allocated concurrently by OS threads through the public API validated by TLC (global distinctness, per-thread monotonicity)",
    "text": "TLC explores every interleaving of 3 threads x 3 allocations: with the atomic fetch-and-add step all ids are distinct; the canary that splits it into load and store is rejected. Conformance: 8 (thorough 16) OS threads released by a barrier allocate 2 000 (50 000) ids each through the only public allocators - DialOpts::build().connection_id() and, on every fourth thread, inbound connections of a Swarm living on that thread, every other one of them denied by one of three composed behaviours at the pending stage (the id is used up all the same); a single-threaded phase (accepted / denied inbound connections interleaved with dial ids) runs first; TLC checks over the recorded per-thread sequences that all ids are distinct and each thread's ids strictly increase.",
    "note": "A racy (non-atomic) counter would be caught by the recorded run only probabilistically; the model check is what shows atomicity is necessary and sufficient.",
    "design_ref": "6/C03",
}


def run(c):
    c.tlc_mc("ConnId", "MCConnId.cfg")
    c.tlc_mc("ConnId", "MCConnId_canary.cfg", expect="Unique")
    drv = c.build("drv-swarm")
    t = c.rundir / "connid.ndjson"
    c.drive(drv, ["connid", c.pick(8, 16), c.pick(2000, 50000), t], timeout=3000)
    n, bad = c.tlc_relation("RelConnId", t, timeout=3000, xmx="12g")
    ids = 0
    for line in open(t):
        r = json.loads(line)
        ids += len(r["vs"])
        c.sample({"t": r["t"], "kind": r["kind"], "first_ids": r["vs"][:6]})
    c.evaluations = ids
    c.distinct_nontrivial = ids
    return c.finish("model_checking",
                    rule="one allocation = one evaluation; all allocations are distinct events made concurrently by T barrier-released OS threads (every fourth also through a Swarm's inbound path); non-trivial = every allocation (each is a potential collision)",
                    assumptions=["the OS scheduler provides the interleavings; no control over them"])
