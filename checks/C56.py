"""C56 WebRTC stream half-close state machine is safe."""
import json

META = {
    "level": "model_checking",
    "technique": "TLA+ transcription of webrtc-utils Stream/State/DropListener model-checked (protocol-level monitors, 3 canaries); TLC-generated edge-cover schedules + exhaustive short + seeded random schedules replayed into two real Streams over a scripted pipe; every recorded run validated by TLC against a property-level trace spec",
    "text": "TLC exhaustively explores the transcribed state machine (State, barriers, handle_inbound_flag, poll_* loops, Framed write buffer, DropListener) for one stream under an arbitrary frame-injecting environment and for a wired pair, and proves: data is delivered only while the read half is open (no FIN/RESET/EOF consumed, no completed close_read), writes are accepted only while the write half is open, no data follows the stream's own FIN, after a consumed RESET every read/write/close/close_read fails with ConnectionReset, and the 'close twice' expect is unreachable; three canaries are rejected. TLC then emits one schedule per transition of the model's state graph (every operation tried in every reachable model state); these, all letter sequences up to length 2-3 over the full two-sided alphabet and seeded random schedules are executed against two real libp2p_webrtc_utils::Stream values joined by a scripted pipe (real framed protobuf flags injected, outbound blocking, EOF, drop + DropListener). The channel bytes are decoded independently by the driver; TLC validates every run against the property-level trace spec (data behind a FIN/RESET/EOF on the channel or after a completed close_read must not be delivered; no accepted write after a completed close or a provably consumed STOP_SENDING/RESET; no data frame after the stream's own FIN; once ConnectionReset was reported or the RESET is provably consumed every guarded operation reports ConnectionReset; no panic).",
    "note": "'Every operation' = read, write, close, close_read (poll_flush is logged, not constrained). The operation that consumes the RESET frame itself may still return Ok(0). Consumption of a frame is only assumed when observable (delivered data / read Pending).",
    "design_ref": "6/C56",
}


def run(c):
    # (M)
    c.tlc_mc("WebrtcStream", c.pick("MCWebrtcStream.cfg", "MCWebrtcStream8.cfg"), timeout=1500)
    c.tlc_mc("WebrtcStream", "MCWebrtcStream_canary.cfg", expect="ReadOnlyWhileOpen")
    c.tlc_mc("WebrtcStream", "MCWebrtcStream_canary2.cfg", expect="AfterReset")
    if not c.quick:
        c.tlc_mc("WebrtcStream", "MCWebrtcStreamPair6.cfg", timeout=1500)
        c.tlc_mc("WebrtcStream", "MCWebrtcStream_canary3.cfg", expect="ReadOnlyWhileOpen")
    drv = c.build("drv-webrtc")
    traces = []
    if c.replay:
        t = c.rundir / "replay_trace.ndjson"
        c.drive(drv, ["stream", "replay", c.replay, t])
        traces.append(t)
    else:
        # (G) TLC: edge cover of the single-stream model, state/edge cover of the paired model
        gens = c.pick(["GenWebrtcStream_q1.cfg", "GenWebrtcStream_q2.cfg", "GenWebrtcStream_t3.cfg"],
                      ["GenWebrtcStream_t1.cfg", "GenWebrtcStream_t2.cfg", "GenWebrtcStream_t3.cfg"])
        for g in gens:
            sched, n, _ = c.tlc_gen("GenWebrtcStream", g, exhaustive=True, timeout=1500,
                                    out=c.rundir / ("sched_%s.ndjson" % g[:-4]))
            t = c.rundir / ("trace_%s.ndjson" % g[:-4])
            c.drive(drv, ["stream", "replay", sched, t])
            traces.append(t)
        t = c.rundir / "exh.ndjson"
        c.drive(drv, ["stream", "exhaustive", c.pick(2, 3), t])
        traces.append(t)
        t = c.rundir / "rand.ndjson"
        c.drive(drv, ["stream", "random", c.seed, c.pick(1500, 6000), t])
        traces.append(t)
    # (V)
    distinct = set()
    for t in traces:
        ok, total = c.tlc_trace("TraceWebrtcStream", t, timeout=1500)
        c.evaluations += total
        for line in open(t):
            if not line.startswith('{"e":"reset"'):
                continue
            ev = json.loads(line)
            ops = ev["sched"]["ops"]
            letters = {o["a"] for o in ops}
            # non-trivial: at least one inbound flag / close / drop together with a read or write
            if letters & {"inject", "close", "close_read", "drop", "eof"} and letters & {"read", "read1", "write", "bigwrite"}:
                distinct.add(json.dumps(ops, sort_keys=True))
            if len(c.samples) < 3 and len(ops) >= 5:
                c.sample(ops)
    c.distinct_nontrivial = len(distinct)
    return c.finish(
        "model_checking",
        rule="schedule = sequence of letters (read, read1, write, bigwrite, flush, close, close_read, drop, inject(frame), eof, block, unblock) x side; "
             "TLC prints one schedule per transition of the model's state graph (single stream: <=6 letters; pair: <=4), the driver adds all sequences of length <=2 (thorough 3) over the 34-letter alphabet and seeded random ones of length 4..30; "
             "distinct = distinct schedules containing a flag/close/drop letter and a read or write",
        assumptions=["channel = in-order reliable byte pipe; frames become readable as soon as written",
                     "a read returning Pending has consumed every frame available on the channel",
                     "outbound blocking is all-or-nothing (no partially written frames)"],
    )
