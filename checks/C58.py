"""C58 Derived behaviours compose their fields faithfully."""
import json

META = {
    "level": "model_checking",
    "technique": "TLA+ model of the derive macro's composition rules model-checked (+canary); traces of a real Swarm running a #[derive(NetworkBehaviour)] struct of three probe behaviours validated by TLC against the composition trace spec",
    "text": "TLC checks the composition rules (forward to all fields in order, ask in order and stop at the first denial, deny iff some asked field denies, route handler events back) and rejects a first-field-only canary. Conformance: a struct of three probe behaviours compiled with the real #[derive(NetworkBehaviour)] runs inside a real Swarm under seeded schedules (dials with per-field extra addresses and the extend flag, inbound connections, per-field deny decisions at pending and established stage, handler-to-behaviour events from each field's handler, NotifyHandler from each field, closes, failures, listener events); TLC checks every FromSwarm arrives as an adjacent b1,b2,b3 triple with identical content, decision callbacks are asked in field order and stop at the first denial, the connection fails with Denied iff some field denied, handler events reach the field that produced them, each field's notification reaches its own handler, and the dialed address set equals explicit + union of all fields' addresses (minus own listen address).",
    "note": "Three fields of the same probe type; the second field is wrapped in an enabled Toggle (its denials and events must pass through unchanged); Either is not covered.",
    "design_ref": "6/C58",
}


def run(c):
    c.tlc_mc("Derive", "MCDerive.cfg")
    c.tlc_mc("Derive", "MCDerive_canary.cfg", expect="AllFieldsSeeAll")
    drv = c.build("drv-swarm")
    t = c.rundir / "derive.ndjson"
    if c.replay:
        c.drive(drv, ["derive", "replay", c.replay, t])
    else:
        c.drive(drv, ["derive", "random", c.seed + 51, c.pick(250, 4000), t])
    ok, total = c.tlc_trace("TraceDerive", t, timeout=c.pick(600, 3000))
    distinct = set()
    cur = None
    for line in open(t):
        ev = json.loads(line)
        if ev["e"] == "reset":
            cur = json.dumps(ev["sched"], sort_keys=True)
            if len(c.samples) < 2:
                c.sample(ev["sched"]["cmds"][:10])
        elif ev["e"] in ("cbHandlerEvent",) or (ev["e"] in ("cbPendingOut", "cbPendingIn", "cbEstIn", "cbEstOut") and ev.get("deny")):
            distinct.add(cur)
    c.evaluations = total
    c.distinct_nontrivial = len(distinct)
    return c.finish("model_checking",
                    rule="seeded random 10-30 command schedules on a Swarm with the derived 3-field behaviour; distinct schedules; non-trivial = the run contains a denial by some field or a handler event",
                    assumptions=["fields are probe behaviours; deterministic polling"])
